#!/bin/sh
# Build the verification framework offline from files on disk: parse the specification, generate the
# catalog from it, build the harness against /repo, and warm the TLC case cache of the quick tier.
set -e
cd "$(dirname "$0")"
export CARGO_NET_OFFLINE=true
mkdir -p work evidence
for m in spec/MC*.tla spec/Trace*.tla; do
  [ -f "$m" ] || continue
  (cd spec && tla-sany "$(basename "$m")" > ../work/sany.out 2>&1) || { cat work/sany.out; echo "tla-sany failed on $m"; exit 1; }
done
[ -f harness/Cargo.lock ] || cp /repo/Cargo.lock harness/Cargo.lock
python3 - <<'PY'
import sys, os
sys.path.insert(0, "tools")
import vcheck
from plans import PLANS
vcheck.build_harness()
done = set()
for pid, plan in sorted(PLANS.items()):
    for st in plan.get("quick", []):
        if st.get("type") in ("tlc-replay", "tlc-only") and (st["module"], st["cfg"]) not in done:
            done.add((st["module"], st["cfg"]))
            m = vcheck.run_tlc(st["module"], st["cfg"], cfg_path=vcheck.materialize_cfg(st))
            print("setup: TLC %s/%s: %s distinct states%s" % (st["module"], st["cfg"], m["distinct"], " (cached)" if m["cached"] else ""))
PY
echo "setup done"
