----------------------------- MODULE TraceIoRecv -----------------------------
(***************************************************************************)
(* Trace validation (implementation -> specification) of the receiver.     *)
(*                                                                         *)
(* Input: NDJSON, one line per recorded run of the real Receiver over a    *)
(* scripted pipe (harness/src/io.rs): the stream, the buffer capacity and, *)
(* per recv() call, in program order, what the pipe saw ("read": offered   *)
(* length, bytes delivered; "readerr"), what the buffer did (hooks of the  *)
(* cargo feature `verif`: advance / skip / compact / clear, each with the  *)
(* window after the change) and what recv returned.                        *)
(*                                                                         *)
(* Every event must be a step of the *permissive* receiver specification   *)
(* (IoRecv with Policy = "any"): the window stays inside the buffer and    *)
(* aligned, compaction keeps the occupied bytes in order, a read puts      *)
(* exactly the delivered bytes after the window, a dropped guard skips     *)
(* exactly size() of a message that the reference decoder accepts on the   *)
(* occupied bytes, and the return value is the one the specification's     *)
(* Validate dictates for the occupied bytes.  A different compaction or    *)
(* read-size policy is accepted; losing, duplicating or reordering bytes,  *)
(* consuming more than was validated, or returning the wrong outcome is    *)
(* rejected.                                                               *)
(***************************************************************************)
EXTENDS Catalog, FlatOps, Json, IOUtils

Runs == ndJsonDeserialize(IOEnv.TRACE)

\* flatten one run into a sequence of events (program order: the harness drains the hook log before
\* every pipe call and at the end of every recv)
RunEvents(run) ==
  Flatten([i \in 1..Len(run.events) |-> run.events[i].evs \o << [t |-> "ret", e |-> run.events[i].ret] >> \o run.events[i].post])

VARIABLES ri,        \* index of the run
          ei,        \* index of the next event of the run
          buf, ws, we, rd, pend     \* modelled buffer, window, stream position, bytes read but not yet "advanced"
vars == <<ri, ei, buf, ws, we, rd, pend>>

Run == Runs[ri]
T == TypeOf(Run.id)
Cap == Run.cap
Evs == RunEvents(Run)
Occupied == SubSeq(buf, ws + 1, we)

Init == ri = 1 /\ ei = 1 /\ buf = <<>> /\ ws = 0 /\ we = 0 /\ rd = 0 /\ pend = <<>>

NextRun ==
  /\ ei > Len(Evs) /\ ri < Len(Runs)
  /\ ri' = ri + 1 /\ ei' = 1 /\ buf' = <<>> /\ ws' = 0 /\ we' = 0 /\ rd' = 0 /\ pend' = <<>>

\* the modelled buffer holds only the meaningful prefix 1..we (what lies beyond the window is not state)
Step ==
  /\ ei <= Len(Evs)
  /\ LET ev == Evs[ei]  e == ev.e IN
     CASE ev.t = "pipe" /\ e.ev = "read" ->
            \* the pipe delivered e.data = the next bytes of the stream, into a vacancy of e.offered bytes
            /\ e.n = Len(e.data) /\ e.n <= e.offered
            /\ e.pos = rd /\ e.data = SubSeq(Run.stream, rd + 1, rd + e.n)
            /\ pend' = pend \o e.data /\ rd' = rd + e.n
            /\ UNCHANGED <<buf, ws, we>>
       [] ev.t = "pipe" /\ e.ev = "readerr" -> UNCHANGED <<buf, ws, we, rd, pend>>
       [] ev.t = "hook" /\ e.ev = "advance" ->
            \* the bytes just read become occupied, right after the window
            /\ e.n = Len(pend) /\ e.we = we + e.n /\ e.ws = ws /\ e.we <= Cap
            /\ buf' = SubSeq(buf, 1, we) \o pend /\ we' = e.we /\ pend' = <<>>
            /\ UNCHANGED <<ws, rd>>
       [] ev.t = "hook" /\ e.ev = "compact" ->
            /\ e.ws = 0 /\ e.we = we - ws
            /\ buf' = Occupied /\ ws' = 0 /\ we' = we - ws
            /\ UNCHANGED <<rd, pend>>
       [] ev.t = "hook" /\ e.ev = "skip" ->
            \* a guard was dropped: it skips exactly size() of the message the reference decoder sees
            /\ LET r == Validate(T, Occupied, 0) IN r.ok /\ e.n = Size(r.val, T)
            /\ e.n <= we - ws
            \* (an emptied window may be moved back to the start of the buffer or left where it is)
            /\ IF ws + e.n = we /\ e.ws = 0 /\ e.we = 0 THEN ws' = 0 /\ we' = 0 /\ buf' = <<>>
               ELSE e.ws = ws + e.n /\ e.we = we /\ ws' = ws + e.n /\ we' = we /\ buf' = buf
            /\ UNCHANGED <<rd, pend>>
       [] ev.t = "hook" /\ e.ev = "clear" -> ws' = 0 /\ we' = 0 /\ buf' = <<>> /\ UNCHANGED <<rd, pend>>
       [] ev.t = "ret" ->
            \* the outcome of recv is the one Validate dictates on the occupied bytes
            /\ LET r == Validate(T, Occupied, 0) IN
               CASE e.e = "msg"    -> r.ok /\ e.size = Size(r.val, T) /\ SameContent(r.val, e.v, T)
                 [] e.e = "parse"  -> ~r.ok /\ r.cls # "size"
                 [] e.e \in {"closed", "rerr", "exhausted", "oom"} -> ~r.ok /\ r.cls = "size"
                 [] OTHER -> FALSE
            /\ (e.e = "oom" => we = Cap /\ ws = 0)
            /\ UNCHANGED <<buf, ws, we, rd, pend>>
       \* anything else (e.g. a `poison` hook in a receiver run: a failed read never poisons, C09 lets it be retried) is not a step
       [] OTHER -> FALSE
  /\ ei' = ei + 1 /\ UNCHANGED ri

Next == Step \/ NextRun
Spec == Init /\ [][Next]_vars

WindowInv == ws <= we /\ (ri <= Len(Runs) => we <= Cap /\ ws % Align(T) = 0)

TotalEvents == LET RECURSIVE go(_) go(i) == IF i > Len(Runs) THEN 0 ELSE Len(RunEvents(Runs[i])) + go(i + 1) IN go(1)
\* accepted iff every event of every run was consumed (one state per event, plus one per run switch, plus the initial state)
\* remember how far validation got (single worker, linear search): used to report the first unmatched event
Track == TLCSet(42, <<ri, ei>>)
Accepted ==
  IF TLCGet("stats").diameter = TotalEvents + Len(Runs) THEN TRUE
  ELSE LET at == TLCGet(42)  evs == RunEvents(Runs[at[1]]) IN
       Print(<<"TRACE-REJECTED", "run", at[1], "event", at[2],
               IF at[2] <= Len(evs) THEN ToJson(evs[at[2]]) ELSE "end of run", "runid", Runs[at[1]].id>>, FALSE)
=============================================================================
