------------------------------ MODULE MCIoAsync ------------------------------
EXTENDS Catalog, IoAsync
CONSTANTS MsgId, NMsgs
MT == TypeOf(MsgId)
GenLen == RoomyMin(MT) + 2 * Align(MT) + 1
Conts == LET tv == TV(MT, GenLen)  n == Len(tv)  m == MinI(n, 5)
             idx(j) == IF m = 1 THEN 1 ELSE 1 + ((j - 1) * (n - 1)) \div (m - 1)
         IN [j \in 1..m |-> Content(tv[idx(j)], MT)]
MaxLenOf(cs) == LET RECURSIVE go(_) go(i) == IF i > Len(cs) THEN MinSize(MT) ELSE MaxI(Size(Build(cs[i], MT, 4 * GenLen).tree, MT), go(i + 1)) IN go(1)
MML == MaxLenOf(Conts)
BufCap == 2 * MaxI(MML, MinSize(MT))
MsgImg(c) == LET tr == Build(c, MT, BufCap).tree IN SubSeq(Enc(tr, MT, BufCap), 1, Size(tr, MT))
Picked == [i \in 1..NMsgs |-> Conts[((i * 2 - 1) % Len(Conts)) + 1]]
MCMsgs == [i \in 1..NMsgs |-> Fill(MsgImg(Picked[i]), 170)]
Header == [k |-> "iomsgs", id |-> MsgId, msgs |-> Picked, imgs |-> [i \in 1..NMsgs |-> MsgImg(Picked[i])], maxlen |-> MML, cap |-> BufCap, pipecap |-> PipeCap]
ASSUME PrintT(<<"CASE", ToJson(Header)>>)
=============================================================================
