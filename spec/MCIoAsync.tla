------------------------------ MODULE MCIoAsync ------------------------------
EXTENDS Catalog, IoAsync
CONSTANTS MsgId, NMsgs
MT == TypeOf(MsgId)
\* (a FlexVec message gets room for a second and third item: reads / writes that end exactly at an item boundary)
GenLen == RoomyMin(MT) + 2 * Align(MT) + 1 + (IF MT.k = "flex" THEN 2 * (FlexOffsetSize(MT) + CeilMul(MinSize(MT.elem[1]), Align(MT))) ELSE 0)
Conts == LET tv == TV(MT, GenLen)  n == Len(tv)  m == MinI(n, 5)
             idx(j) == IF m = 1 THEN 1 ELSE 1 + ((j - 1) * (n - 1)) \div (m - 1)
             \* for a FlexVec message the middle pick is a tree with the most items
             most == CHOOSE i \in 1..n : \A k \in 1..n : Len(tv[i].items) >= Len(tv[k].items)
             pick(j) == IF MT.k = "flex" /\ j = (m + 1) \div 2 THEN most ELSE idx(j)
         IN [j \in 1..m |-> Content(tv[pick(j)], MT)]
MaxLenOf(cs) == LET RECURSIVE go(_) go(i) == IF i > Len(cs) THEN MinSize(MT) ELSE MaxI(Size(Build(cs[i], MT, 4 * GenLen).tree, MT), go(i + 1)) IN go(1)
MML == MaxLenOf(Conts)
BufCap == 2 * MaxI(MML, MinSize(MT))
MsgImg(c) == LET tr == Build(c, MT, BufCap).tree IN SubSeq(Enc(tr, MT, BufCap), 1, Size(tr, MT))
Picked == [i \in 1..NMsgs |-> Conts[((i * 2 - 1) % Len(Conts)) + 1]]
MCMsgs == [i \in 1..NMsgs |-> Fill(MsgImg(Picked[i]), 170)]
Header == [k |-> "iomsgs", id |-> MsgId, msgs |-> Picked, imgs |-> [i \in 1..NMsgs |-> MsgImg(Picked[i])], maxlen |-> MML, cap |-> BufCap, pipecap |-> PipeCap]
ASSUME PrintT(<<"CASE", ToJson(Header)>>)
=============================================================================
