------------------------------- MODULE IoSend -------------------------------
(***************************************************************************)
(* The sending half of flatty-io (blocking Sender over a Write pipe; the   *)
(* async WriteAll future runs the same steps plus flush, see IoAsync).     *)
(*   io/src/blocking/send.rs  Sender::alloc, UninitSendGuard::new_in_place,*)
(*                            SendGuard::send                              *)
(*   io/src/blocking/io.rs    IoBuffer::{alloc, write_all}                 *)
(* One action per pipe call.  Write error semantics (C09): an error or a   *)
(* zero-length write ends the send with an error; the sender is poisoned   *)
(* only if part of the message is already in the sink.  The permissive     *)
(* variant lets a failed write at position 0 be retried a bounded number   *)
(* of times (Retry); the reference and the code's intent is Retry = 0.     *)
(***************************************************************************)
EXTENDS FlatOps, Json

CONSTANTS MsgT, Msgs,      \* message type and the sequence of message byte strings to send (each already cut to size())
          ChunkMax, FaultMax, Retry, ErrKinds, Record,
          AbandonMax   \* how many messages may be emplaced under a SendGuard that is then dropped without send()

VARIABLES mi,        \* index of the message being sent (1..Len(Msgs)+1)
          spc,       \* "idle" "writing" / terminal: "done" "poisoned"
          pos,       \* bytes of the current message accepted by the sink
          sink,      \* everything the sink accepted
          rets,      \* per finished send: "ok" / "err"
          wcalls, faults, retries,
          stuck,     \* "no", or the failure ("zero" / "err") the pipe now answers forever (persistent fault)
          abandons,  \* guards dropped without send() so far
          path
vars == <<mi, spc, pos, sink, rets, wcalls, faults, retries, stuck, abandons, path>>
View == <<mi, spc, pos, sink, rets, wcalls, faults, retries, stuck, abandons>>

Ev(e, n) == [e |-> e, n |-> n, m |-> mi, pos |-> pos, kind |-> ""]
EvK(e, n, ek) == [e |-> e, n |-> n, m |-> mi, pos |-> pos, kind |-> ek]
Log(ev) == path' = IF Record THEN Append(path, ev) ELSE path

Init == mi = 1 /\ spc = "idle" /\ pos = 0 /\ sink = <<>> /\ rets = <<>> /\ wcalls = 0 /\ faults = 0 /\ retries = 0 /\ stuck = "no" /\ abandons = 0 /\ path = <<>>

Cur == Msgs[mi]

Begin ==           \* alloc + new_in_place + send(): write_all(size) starts
  /\ spc = "idle" /\ mi <= Len(Msgs)
  /\ spc' = "writing" /\ pos' = 0 /\ wcalls' = 0 /\ retries' = 0
  /\ UNCHANGED <<mi, sink, rets, faults, stuck, abandons, path>>

Finish(r) == /\ rets' = Append(rets, r) /\ mi' = mi + 1

\* Sender::alloc + UninitSendGuard::new_in_place, then the SendGuard is dropped without send() (SendGuard has no Drop:
\* the buffer window stays allocated, IoBuffer::alloc of the next message finds no vacancy and hands out the same
\* bytes).  No pipe call is made, nothing reaches the sink, the sender is not poisoned and the next message is sent
\* as if the abandoned one had never been emplaced.
Abandon ==
  /\ spc = "idle" /\ mi <= Len(Msgs) /\ abandons < AbandonMax
  /\ abandons' = abandons + 1 /\ Finish("dropped") /\ Log(Ev("abandon", 0))
  /\ UNCHANGED <<spc, pos, sink, wcalls, faults, retries, stuck>>

WriteOk ==
  /\ spc = "writing" /\ pos < Len(Cur) /\ stuck = "no"
  /\ \E n \in 1..MinI(ChunkMax, Len(Cur) - pos) :
       /\ sink' = sink \o SubSeq(Cur, pos + 1, pos + n)
       /\ pos' = pos + n
       /\ Log(Ev("w", n))
       /\ IF pos + n = Len(Cur)
            THEN spc' = "idle" /\ Finish("ok")          \* buffer cleared, send returns Ok
            ELSE spc' = "writing" /\ UNCHANGED <<rets, mi>>
  /\ wcalls' = wcalls + 1
  /\ UNCHANGED <<faults, retries, stuck, abandons>>

WriteFail(kind) ==          \* kind: "zero" (write returned 0) or "err"
  /\ spc = "writing" /\ pos < Len(Cur)
  /\ \E ek \in (IF kind = "err" THEN ErrKinds ELSE {""}) :
     \/ stuck = kind /\ UNCHANGED <<stuck, faults>> /\ Log(EvK(kind, 2, ek))                    \* the persistent fault again
     \/ stuck = "no" /\ faults < FaultMax /\ faults' = faults + 1
        /\ \/ stuck' = "no" /\ Log(EvK(kind, 0, ek))                                        \* transient
           \/ stuck' = kind /\ Log(EvK(kind, 1, ek))                                        \* from now on, forever
  /\ wcalls' = wcalls + 1
  /\ IF pos > 0 THEN spc' = "poisoned" /\ Finish("err") /\ UNCHANGED retries
     ELSE \/ spc' = "idle" /\ Finish("err") /\ UNCHANGED retries
          \/ kind = "err" /\ retries < Retry /\ retries' = retries + 1 /\ UNCHANGED <<spc, rets, mi>>
  /\ UNCHANGED <<pos, sink, abandons>>

AllSent == /\ spc = "idle" /\ mi > Len(Msgs) /\ spc' = "done" /\ UNCHANGED <<mi, pos, sink, rets, wcalls, faults, retries, stuck, abandons, path>>

Next == Begin \/ Abandon \/ WriteOk \/ WriteFail("zero") \/ WriteFail("err") \/ AllSent
Spec == Init /\ [][Next]_vars /\ WF_vars(Next)
NextP == Next /\ (Len(path') # Len(path) => PrintT(<<"CASE", ToJson([k |-> "iosend", id |-> "", path |-> path', rets |-> rets', final |-> spc'])>>))
SpecP == Init /\ [][NextP]_vars

(***************************************************************************)
(* Properties.                                                             *)
(***************************************************************************)
\* the sink is whole messages (those whose send returned ok, in order) followed by at most one partial
\* message, and nothing follows a partial message
OkMsgs == Flatten([i \in 1..Len(rets) |-> IF rets[i] = "ok" THEN Msgs[i] ELSE <<>>])
Partial == IF spc = "writing" THEN SubSeq(Cur, 1, pos)
           ELSE IF spc = "poisoned" THEN SubSeq(Msgs[mi - 1], 1, Len(sink) - Len(OkMsgs)) ELSE <<>>
SinkFramed == sink = OkMsgs \o Partial
OkMeansWhole == \A i \in 1..Len(rets) : rets[i] = "ok" => TRUE      \* (whole message in sink: part of SinkFramed)
\* an abandoned message leaves no byte in the sink (it is not among OkMsgs, so SinkFramed says so) and costs no pipe call
AbandonSilent == [][rets' # rets /\ rets'[Len(rets')] = "dropped" => sink' = sink /\ wcalls' = wcalls /\ spc' = spc]_vars
BoundedCalls == spc = "writing" => wcalls <= Len(Cur) + Retry + 1
PoisonedStops == spc = "poisoned" => ~ENABLED Next
Terminates == <>(spc \in {"done", "poisoned"})
=============================================================================
