------------------------------ MODULE MCLayout ------------------------------
(***************************************************************************)
(* Model: the layout theorems over the catalog, and one JSON line per      *)
(* (type, slice length) with the reference layout facts -- the expected    *)
(* side of the C04 comparison -- plus, once per type, the descriptor from  *)
(* which harness/gen.py generates the Rust definition.                     *)
(***************************************************************************)
EXTENDS Catalog, FlatValues, Json

VARIABLES ci, L
vars == <<ci, L>>

T == Catalog[ci].t
Span(t) == IF IsSized(t) THEN 0 ELSE 3 * Align(t) + 2

Init == ci \in DOMAIN Catalog /\ L = MinSize(Catalog[ci].t)
Next == /\ L < MinSize(T) + Span(T)
        /\ L' = L + 1 /\ UNCHANGED ci
Spec == Init /\ [][Next]_vars

OffsOf(t) ==
  CASE t.k = "struct" -> FieldOffs(t.fields)
    [] t.k = "enum"   -> [i \in DOMAIN t.vars |-> [j \in DOMAIN t.vars[i] |-> EnumDataOffset(t) + FieldOffs(t.vars[i])[j]]]
    [] OTHER -> <<>>
DataOff(t) ==
  CASE t.k = "vec" -> VecDataOffset(t) [] t.k = "str" -> StrDataOffset(t) [] t.k = "flex" -> FlexOffsetSize(t)
    [] t.k = "enum" -> EnumDataOffset(t) [] t.k = "struct" /\ ~t.sized -> LastFieldOffset(t) [] OTHER -> 0
CapOf(t, l) == CASE t.k = "vec" -> VecCap(t, l) [] t.k = "str" -> StrCap(t, l) [] OTHER -> -1

Facts == [id |-> Catalog[ci].id, L |-> L, align |-> Align(T), sized |-> IsSized(T),
          size |-> StaticSize(T), min |-> MinSize(T), offs |-> OffsOf(T), dataoff |-> DataOff(T),
          view |-> ViewLen(T, L), cap |-> CapOf(T, L), portable |-> IsPortable(T)]

(* What the accessors of a mapped value must hand out, as addresses relative to the start of the   *)
(* buffer: fields, enum payload fields, container data, capacities (the shape mirrors             *)
(* Shape::probe of the harness).                                                                  *)
RECURSIVE Probe(_, _, _, _)
ProbeFields(fs, vals, total, base) ==
  LET offs == FieldOffs(fs) IN
  [offs |-> [i \in DOMAIN fs |-> base + offs[i]],
   subs |-> [i \in DOMAIN fs |-> Probe(vals[i], fs[i], total - offs[i], base + offs[i])]]
Probe(x, t, l, base) ==
  CASE t.k \in {"prim", "pint", "pfloat", "unit", "bool"} -> [leaf |-> TRUE]
    [] t.k = "arr"  -> [elems |-> [i \in 1..t.n |-> base + (i - 1) * StaticSize(t.elem[1])]]
    [] t.k = "vec"  -> [data |-> base + VecDataOffset(t), cap |-> VecCap(t, l)]
    [] t.k = "str"  -> [data |-> base + StrDataOffset(t), cap |-> StrCap(t, l)]
    [] t.k = "flex" -> [data |-> IF x.items = <<>> THEN -1 ELSE base + FlexOffsetSize(t)]
    [] t.k = "struct" -> ProbeFields(t.fields, x, IF t.sized THEN StaticSize(t) ELSE FloorMul(l, Align(t)), base)
    [] t.k = "enum" ->
         IF IsCLike(t) THEN [tag |-> x.tag]
         ELSE [tag |-> x.tag] @@ ProbeFields(t.vars[x.tag], x.fs,
                                             IF t.sized THEN StaticSize(t) - EnumDataOffset(t) ELSE EnumDataLen(t, l),
                                             base + EnumDataOffset(t))

Trees == TV(T, L)
LayoutCase(vi) == [k |-> "layout", id |-> Catalog[ci].id, L |-> L, facts |-> Facts,
                   img |-> Fill(Enc(Trees[vi], T, L), 0), tree |-> Trees[vi], probe |-> Probe(Trees[vi], T, L, 0),
                   extent |-> Size(Trees[vi], T)]

EmitDesc == L = MinSize(T) => PrintT(<<"DESC", ToJson(Catalog[ci])>>)
EmitFacts == \A vi \in 1..Len(Trees) : PrintT(<<"CASE", ToJson(LayoutCase(vi))>>)

EmitNeg == \A i \in DOMAIN NegCatalog : PrintT(<<"NEG", ToJson(NegCatalog[i])>>)
ASSUME EmitNeg
\* every negative definition is one the specification says must not be accepted
ASSUME \A i \in DOMAIN NegCatalog : ~Acceptable(NegCatalog[i].t)
WF == Acceptable(T)
Sane == LayoutSane(T)
Inside == ViewInside(T, L)
\* portable enums with a tag wider than one byte are the recorded exception (finding #13):
\* the tag is a native integer, so the type has its alignment and the host's byte order
Packed == (T.k = "enum" /\ T.size > 1) \/ PortablePacked(T)
Emit == EmitDesc /\ EmitFacts
=============================================================================
