------------------------------ MODULE IoWindow ------------------------------
(***************************************************************************)
(* The window arithmetic of flatty-io's receive buffer, abstracted from    *)
(* the buffer contents: io/src/common/io.rs Buffer::{advance, skip,        *)
(* make_contiguous} as used by IoBuffer::read and RecvGuard::drop.         *)
(*                                                                         *)
(* IoRecv.tla (checked by TLC) carries the bytes and is bounded by the     *)
(* message sets of its configurations.  This module keeps only the         *)
(* integers -- window start / end, bytes read from the pipe, bytes         *)
(* consumed by dropped guards -- and is checked with Apalache for EVERY    *)
(* capacity, alignment, chunk size and message size at once, by showing    *)
(* that IndInv is an inductive invariant:                                  *)
(*     IndInit => IndInv          (apalache-mc check --init=IndInit --inv=IndInv --length=0) *)
(*     IndInv /\ Next => IndInv'  (apalache-mc check --init=IndInit --inv=IndInv --length=1) *)
(*     Init => IndInv             (apalache-mc check --init=Init    --inv=IndInv --length=0) *)
(* IndInv contains the window invariant of IoRecv (WindowInv), the         *)
(* conservation law behind HeadInv (occupied bytes = read - consumed) and  *)
(* GuardInside.  The correspondence with the code is the same as for       *)
(* IoRecv: TraceIoRecv.tla validates recorded hook events (advance, skip,  *)
(* compact with the window after the change) against these very steps.    *)
(***************************************************************************)
EXTENDS Integers

CONSTANTS
  \* @type: Int;
  Cap,      \* capacity of the buffer
  \* @type: Int;
  A         \* alignment of the message type: every message size is a multiple of it

VARIABLES
  \* @type: Int;
  ws,       \* window start
  \* @type: Int;
  we,       \* window end
  \* @type: Int;
  rd,       \* bytes delivered by the pipe so far
  \* @type: Int;
  consumed, \* bytes consumed by dropped guards
  \* @type: Int;
  guard     \* size() of the message under a live guard, 0 when there is none

ConstInit == A \in {1, 2, 4, 8, 16} /\ Cap \in Int /\ Cap >= A /\ Cap % A = 0

Init == ws = 0 /\ we = 0 /\ rd = 0 /\ consumed = 0 /\ guard = 0

\* IoBuffer::read: compaction when (policy "any": whenever) there is something to compact
Compact ==
  /\ guard = 0 /\ ws > 0
  /\ ws' = 0 /\ we' = we - ws
  /\ UNCHANGED <<rd, consumed, guard>>

\* pipe.read(vacant) = n, advance(n), 1 <= n <= vacant
\* (written without a bound variable so that TLC can evaluate the action on a pair of states -- the refinement check
\*  of MCIoRecv -- and Apalache can use `we' \in Int` as the assignment)
Read ==
  /\ guard = 0 /\ we < Cap
  /\ we' \in Int /\ we' > we /\ we' <= Cap
  /\ rd' = rd + (we' - we)
  /\ UNCHANGED <<ws, consumed, guard>>

\* recv returns a guard over a validated message of size guard' at the head of the window (SizeSufficient: it fits)
Hand ==
  /\ guard = 0
  /\ guard' \in Int /\ guard' >= A /\ guard' % A = 0 /\ guard' <= we - ws
  /\ UNCHANGED <<ws, we, rd, consumed>>

\* RecvGuard::drop: skip(size()); an emptied window may be moved back to the start
Drop ==
  /\ guard > 0
  /\ consumed' = consumed + guard
  /\ \/ ws' = ws + guard /\ we' = we
     \/ ws + guard = we /\ ws' = 0 /\ we' = 0
  /\ guard' = 0
  /\ UNCHANGED rd

\* RecvGuard::retain: nothing is skipped
Retain ==
  /\ guard > 0 /\ guard' = 0
  /\ UNCHANGED <<ws, we, rd, consumed>>

Next == Compact \/ Read \/ Hand \/ Drop \/ Retain

IndInv ==
  /\ 0 <= ws /\ ws <= we /\ we <= Cap
  /\ ws % A = 0                           \* WindowInv: the head of the window stays aligned
  /\ consumed >= 0 /\ consumed % A = 0
  /\ we - ws = rd - consumed              \* conservation: nothing lost, nothing duplicated (the integer shadow of HeadInv)
  /\ guard >= 0 /\ guard % A = 0
  /\ guard <= we - ws                     \* GuardInside: dropping the guard never consumes more than was received

IndInit == ws \in Int /\ we \in Int /\ rd \in Int /\ consumed \in Int /\ guard \in Int /\ IndInv

\* what the invariant is for
Safety == /\ consumed <= rd
          /\ (guard > 0 => ws + guard <= Cap)
=============================================================================
