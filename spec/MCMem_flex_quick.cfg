SPECIFICATION Spec
CONSTANTS
  NV = 2
  MaxLen = 2
  MaxItems = 2
  AssignMax = 4
  ArgVals = 1
  TypeIds = {"X_u8_u8", "X_u32_u8", "X_bool_u16", "X_vu8_u8", "X_vi32_u16", "X_s8_u16", "X_vu8le_le", "X_x_u8", "X_us2_u16", "X_ue1_u8", "X_u8_u64", "X_unit_u16"}
  LMults = {0, 1, 3}
  BigInit = FALSE
  FollowUps = FALSE
INVARIANTS InvRoundTrip InvSize InvLenCap InvFlexShape
CHECK_DEADLOCK FALSE
