SPECIFICATION Spec
INVARIANTS WF Sane Inside Packed Emit
CHECK_DEADLOCK FALSE
