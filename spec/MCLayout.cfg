SPECIFICATION Spec
CONSTANTS
  NV = 1
  MaxLen = 1
  MaxItems = 1
INVARIANTS WF Sane Inside Packed Emit
CHECK_DEADLOCK FALSE
