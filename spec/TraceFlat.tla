------------------------------ MODULE TraceFlat ------------------------------
(***************************************************************************)
(* Trace validation (implementation -> specification) for the format and   *)
(* the in-place API.  Input: NDJSON events recorded by the seeded random   *)
(* drivers of the harness (harness/src/drive.rs), which exercise the real  *)
(* library far outside the bounds of the exhaustive models: full byte      *)
(* range, longer buffers, long operation histories with arbitrary element  *)
(* values.  One event per call, logged at the call's return:               *)
(*                                                                         *)
(*  dec  from_bytes(bs) at address offset addr: ok, error kind, deep read,  *)
(*       size()                                                            *)
(*  emp  new_in_place(content) into L bytes at addr: ok, error kind, the   *)
(*       resulting bytes, size()                                           *)
(*  dflt default_in_place into L bytes at addr: ok, error kind, bytes, size *)
(*  op   an operation at a path of a mapped value: pre bytes, operation,   *)
(*       result, post bytes, size()                                        *)
(*                                                                         *)
(* TLC accepts the trace iff every event is a step the specification       *)
(* allows: the reference decoder agrees with acceptance, content and size; *)
(* Build agrees with the emplacement (three-valued, as in MCEmplace); and  *)
(* for an operation the post bytes decode to exactly the tree Apply gives  *)
(* for the decoded pre bytes, every byte outside the changed node is       *)
(* unchanged and every determined byte has its reference value.            *)
(***************************************************************************)
EXTENDS Catalog, FlatOps, Json, IOUtils

Recs == ndJsonDeserialize(IOEnv.TRACE)

VARIABLE i
Init == i = 1

MaskOk(mask, pre, post) ==
  /\ Len(post) = Len(pre)
  /\ \A k \in 1..Len(mask) : /\ (mask[k] = SAME => post[k] = pre[k])
                             /\ (mask[k] >= 0 => post[k] = mask[k])

(***************************************************************************)
(* Projection.  The same trace is judged under one property at a time     *)
(* (environment variable PROP, set by the check that runs the validation): *)
(* every conjunct below belongs to the properties named in its guard, and  *)
(* a check rejects a trace only for a deviation that its own property      *)
(* forbids -- a change that breaks C18 is not reported by C14's check.     *)
(* Without PROP every conjunct applies.                                    *)
(***************************************************************************)
Prop == IF "PROP" \in DOMAIN IOEnv THEN IOEnv.PROP ELSE "ALL"
On(ps) == Prop = "ALL" \/ Prop \in ps

DecOk(e) ==
  LET t == TypeOf(e.id)  r == Validate(t, e.bs, e.addr)
      both == r.ok /\ e.ok
      \* what the bytes are relative to a valid message m (the first base bytes of the image they were derived from)
      aligned == e.addr % Align(t) = 0
      prefix == aligned /\ e.mode = 2 /\ Len(e.bs) < e.base                 \* a proper prefix of m
      extension == aligned /\ e.mode \in {2, 3} /\ Len(e.bs) >= e.base /\ e.base > 0   \* m followed by further bytes
  IN
  \* C02: accepted exactly when well formed; the view is consistent and its content is the reference decoding
  /\ On({"C02"}) => /\ r.ok = e.ok
                     /\ (both => SameContent(r.val, e.read, t) /\ LenLeCap(r.val, t))
                     /\ (e.ok => e.inconsistent = 0)
  \* C01: (panics are separate events) nothing reachable lies outside the slice
  /\ On({"C01"}) => (e.ok => e.inconsistent = 0)
  \* C05: the extent of an accepted value
  /\ On({"C05"}) => (both => Size(r.val, t) = e.size /\ e.size <= Len(e.bs))
  \* C06: a proper prefix is "incomplete" (or the same content when only padding is missing), never another message
  \*      and never a content error; an extension is the same message
  /\ On({"C06"}) => /\ (prefix => IF e.ok THEN r.ok /\ SameContent(r.val, e.read, t) ELSE e.kind = "InsufficientSize")
                     /\ (extension => r.ok = e.ok /\ (both => SameContent(r.val, e.read, t) /\ Size(r.val, t) = e.size))

EmpJudge(e, t, content) ==
  LET b == IF e.addr % Align(t) = 0 THEN Build(content, t, e.L) ELSE BFail("align")
      good == /\ LET r == Validate(t, e.post, 0) IN r.ok /\ SameTree(r.val, b.tree, t) /\ e.size = Size(b.tree, t)
              /\ MaskOk(Enc(b.tree, t, e.L), e.post, e.post)
  IN
  \* C03 / C20: where the content fits and the call succeeds, the value reads back, validates and has the reference image
  /\ On({"C03", "C20"}) => ((e.addr % Align(t) = 0 /\ b.ok /\ e.ok) => good)
  \* C15: acceptance and error kinds (three-valued in the thin zone), and an accepted emplacement satisfies C03
  /\ On({"C15"}) =>
       IF e.addr % Align(t) # 0 THEN ~e.ok /\ (e.L >= MinSize(t) => e.kind = "BadAlign")
       ELSE IF b.ok THEN e.ok /\ good
       ELSE IF e.L >= MinSize(t) /\ Build(content, t, e.L + Align(t) - 1).ok
              THEN (e.ok => LET r == Validate(t, e.post, 0) IN r.ok /\ e.size <= e.L)        \* thin zone: either, but consistent
       ELSE ~e.ok /\ e.kind = "InsufficientSize"

EmpOk(e) == EmpJudge(e, TypeOf(e.id), e.content)
\* default_in_place: the documented default state, whatever the buffer held before
DfltOk(e) == LET t == TypeOf(e.id) IN
  /\ EmpJudge(e, t, DefaultContent(t))
  /\ On({"C20"}) => ((e.ok /\ e.addr % Align(t) = 0 /\ t.k # "enum") => e.size = MinSize(t))

\* SAME outside the byte range (off, off + len] of the node an operation addresses, anything inside
RegionMask(n, off, len) == [k \in 1..n |-> IF k <= off \/ k > off + len THEN SAME ELSE ANY]

PushLike(o) == o.op \in {"push", "push_slice", "push_str", "push_default"}

OpOk(e) ==
  LET t == TypeOf(e.id)
      d == Validate(t, e.pre, 0)
      path1 == [k \in 1..Len(e.path) |-> e.path[k] + 1]
  IN /\ d.ok
     /\ LET a == Apply(d.val, t, Len(e.pre), path1, e.op)
            d2 == Validate(t, e.post, 0)
            nk == Get(d.val, t, Len(e.pre), path1, 0).t.k
            viaflex == \E j \in 0..(Len(path1) - 1) : Get(d.val, t, Len(e.pre), SubSeq(path1, 1, j), 0).t.k = "flex"
            same == d2.ok /\ SameTree(d2.val, a.tree, t)
        IN
        \* C11 / C12: result, validity and state of the container the operation addresses (or of the FlexVec it lives in)
        /\ On({"C11"}) => (nk \in {"vec", "str"} =>
               a.ok = e.ok /\ d2.ok /\ (~a.anyvalid => same /\ e.size = Size(a.tree, t)))
        /\ On({"C12"}) => ((nk = "flex" \/ viaflex) =>
               a.ok = e.ok /\ d2.ok /\ (~a.anyvalid => same))
        \* C13: a push the implementation refuses leaves the state as it was
        /\ On({"C13"}) => ((nk \in {"vec", "str", "flex"} /\ PushLike(e.op) /\ ~e.ok) =>
               d2.ok /\ SameTree(d2.val, d.val, t) /\ e.size = Size(d.val, t))
        \* C14: nothing outside the node being changed changes; inside it the determined bytes are the reference's
        /\ On({"C14"}) => /\ Len(e.post) = Len(e.pre)
                           /\ MaskOk(RegionMask(Len(e.pre), a.off, a.len), e.pre, e.post)
                           /\ ((~a.anyvalid /\ a.ok = e.ok) => MaskOk(Mask(a.tree, t, Len(e.pre), a.off, a.len), e.pre, e.post))
        \* C18: an assignment the implementation refuses leaves a valid value
        /\ On({"C18"}) => ((e.op.op = "assign" /\ ~e.ok) => d2.ok)

Next ==
  /\ i <= Len(Recs)
  /\ LET e == Recs[i] IN
       CASE e.ev = "dec" -> DecOk(e)
         [] e.ev = "emp" -> EmpOk(e)
         [] e.ev = "dflt" -> DfltOk(e)
         [] e.ev = "op"  -> OpOk(e)
         [] OTHER -> FALSE
  /\ i' = i + 1
Spec == Init /\ [][Next]_i

Track == TLCSet(42, i)
Accepted ==
  IF TLCGet("stats").diameter = Len(Recs) + 1 THEN TRUE
  ELSE LET at == TLCGet(42) IN
       Print(<<"TRACE-REJECTED", "event", at, IF at <= Len(Recs) THEN ToJson(Recs[at]) ELSE "end">>, FALSE)
=============================================================================
