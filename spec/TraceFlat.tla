------------------------------ MODULE TraceFlat ------------------------------
(***************************************************************************)
(* Trace validation (implementation -> specification) for the format and   *)
(* the in-place API.  Input: NDJSON events recorded by the seeded random   *)
(* drivers of the harness (harness/src/drive.rs), which exercise the real  *)
(* library far outside the bounds of the exhaustive models: full byte      *)
(* range, longer buffers, long operation histories with arbitrary element  *)
(* values.  One event per call, logged at the call's return:               *)
(*                                                                         *)
(*  dec  from_bytes(bs) at address offset addr: ok, error kind, deep read,  *)
(*       size()                                                            *)
(*  emp  new_in_place(content) into L bytes at addr: ok, error kind, the   *)
(*       resulting bytes, size()                                           *)
(*  op   an operation at a path of a mapped value: pre bytes, operation,   *)
(*       result, post bytes, size()                                        *)
(*                                                                         *)
(* TLC accepts the trace iff every event is a step the specification       *)
(* allows: the reference decoder agrees with acceptance, content and size; *)
(* Build agrees with the emplacement (three-valued, as in MCEmplace); and  *)
(* for an operation the post bytes decode to exactly the tree Apply gives  *)
(* for the decoded pre bytes, every byte outside the changed node is       *)
(* unchanged and every determined byte has its reference value.            *)
(***************************************************************************)
EXTENDS Catalog, FlatOps, Json, IOUtils

Recs == ndJsonDeserialize(IOEnv.TRACE)

VARIABLE i
Init == i = 1

MaskOk(mask, pre, post) ==
  /\ Len(post) = Len(pre)
  /\ \A k \in 1..Len(mask) : /\ (mask[k] = SAME => post[k] = pre[k])
                             /\ (mask[k] >= 0 => post[k] = mask[k])

DecOk(e) ==
  LET t == TypeOf(e.id)  r == Validate(t, e.bs, e.addr) IN
  /\ r.ok = e.ok
  /\ (r.ok => SameContent(r.val, e.read, t) /\ Size(r.val, t) = e.size /\ LenLeCap(r.val, t))

EmpOk(e) ==
  LET t == TypeOf(e.id)
      b == IF e.addr % Align(t) = 0 THEN Build(e.content, t, e.L) ELSE BFail("align") IN
  IF e.addr % Align(t) # 0 THEN ~e.ok /\ (e.L >= MinSize(t) => e.kind = "BadAlign")
  ELSE IF b.ok THEN /\ e.ok
                    /\ LET r == Validate(t, e.post, 0) IN r.ok /\ SameTree(r.val, b.tree, t) /\ e.size = Size(b.tree, t)
                    /\ MaskOk(Enc(b.tree, t, e.L), e.post, e.post)
  ELSE IF e.L >= MinSize(t) /\ Build(e.content, t, e.L + Align(t) - 1).ok
         THEN (e.ok => LET r == Validate(t, e.post, 0) IN r.ok /\ e.size <= e.L)        \* thin zone: either, but consistent
  ELSE ~e.ok /\ e.kind = "InsufficientSize"

OpOk(e) ==
  LET t == TypeOf(e.id)
      d == Validate(t, e.pre, 0)
      path1 == [k \in 1..Len(e.path) |-> e.path[k] + 1]
  IN /\ d.ok
     /\ LET a == Apply(d.val, t, Len(e.pre), path1, e.op)
            d2 == Validate(t, e.post, 0)
        IN /\ a.ok = e.ok
           /\ d2.ok
           /\ (~a.anyvalid => /\ SameTree(d2.val, a.tree, t)
                              /\ e.size = Size(a.tree, t)
                              /\ MaskOk(Mask(a.tree, t, Len(e.pre), a.off, a.len), e.pre, e.post))

Next ==
  /\ i <= Len(Recs)
  /\ LET e == Recs[i] IN
       CASE e.ev = "dec" -> DecOk(e)
         [] e.ev = "emp" -> EmpOk(e)
         [] e.ev = "op"  -> OpOk(e)
         [] OTHER -> FALSE
  /\ i' = i + 1
Spec == Init /\ [][Next]_i

Track == TLCSet(42, i)
Accepted ==
  IF TLCGet("stats").diameter = Len(Recs) + 1 THEN TRUE
  ELSE LET at == TLCGet(42) IN
       Print(<<"TRACE-REJECTED", "event", at, IF at <= Len(Recs) THEN ToJson(Recs[at]) ELSE "end">>, FALSE)
=============================================================================
