----------------------------- MODULE FlatCodec -----------------------------
(***************************************************************************)
(* Reference decoder, encoder and extent of the flat format.               *)
(*                                                                         *)
(*   Validate(t, bs, addr)  what validate / from_bytes must answer for the *)
(*                          byte string bs placed at address offset addr   *)
(*   Dec(t, bs)             the reference decoding (layout-annotated tree) *)
(*   Enc(v, t, L)           the image of tree v in an L-byte slice: every  *)
(*                          byte the format determines, ANY elsewhere      *)
(*   Size(v, t)             the reference extent (what size() must return) *)
(*   Content(v, t)          the tree without layout annotations            *)
(*                                                                         *)
(* Trees.  scalar: little-endian digit sequence of the *value* (so that a  *)
(* be:: scalar with digits <<1,2>> is stored as bytes 2,1); Bool: 0 / 1;   *)
(* unit: <<>>; array, struct: sequence of trees; enum: [tag |-> 1-based    *)
(* variant index, fs |-> field trees]; FlatVec: [cap, items]; FlatString:  *)
(* [cap, bytes]; FlexVec: [items |-> << [reg |-> r, v |-> tree] >>] where  *)
(* reg is the sealed region of the item (offset slot included) and reg = 0 *)
(* marks the open last item (slot = L::MAX, owns the rest of the view).    *)
(* Regions and capacities are state: an item that shrinks keeps its region.*)
(*                                                                         *)
(* Code this mirrors: validate_unchecked / ptr_from_bytes / size() of      *)
(* containers/src/{vec,string,flex}.rs, base/src/primitive.rs,             *)
(* base/src/utils/iter.rs (validate_all, fold_size), portable/src/bool_.rs,*)
(* macros/src/items/{cast,tag,base}.rs.                                     *)
(***************************************************************************)
EXTENDS FlatLayout

ANY  == -1      \* a byte the format does not determine (padding, spare capacity)
SAME == -2      \* (masks) a byte that must keep its previous content

Rev(s)    == [i \in 1..Len(s) |-> s[Len(s) + 1 - i]]
Rep(n, x) == [i \in 1..n |-> x]
Overlay(base, off, piece) ==
  [i \in 1..Len(base) |-> IF i > off /\ i <= off + Len(piece) THEN piece[i - off] ELSE base[i]]

\* numeric value of a little-endian digit sequence, saturating at BIG
NumLE(ds) ==
  LET RECURSIVE go(_)
      go(i) == IF i > Len(ds) THEN 0
               ELSE LET h == go(i + 1) IN IF h >= BIG \div 256 THEN BIG ELSE ds[i] + 256 * h
  IN go(1)
RECURSIVE Pow256(_)
Pow256(k) == IF k = 0 THEN 1 ELSE 256 * Pow256(k - 1)
\* w little-endian digits of n (n < 2^31)
DigitsLE(n, w) == [i \in 1..w |-> IF i > 4 THEN 0 ELSE (n \div Pow256(i - 1)) % 256]

ScalarDigits(t, bytes) == IF t.be THEN Rev(bytes) ELSE bytes     \* host is little-endian
ScalarBytes(t, digits) == IF t.be THEN Rev(digits) ELSE digits
LenVal(l, bytes)  == NumLE(ScalarDigits(l, bytes))
LenBytes(l, n)    == ScalarBytes(l, DigitsLE(n, l.size))
IsMaxBytes(bytes) == \A i \in DOMAIN bytes : bytes[i] = 255
MaxBytes(l)       == Rep(l.size, 255)

\* ---- results -------------------------------------------------------------
Ok(v) == [ok |-> TRUE, val |-> v, kind |-> "", pos |-> 0, cls |-> "", plen |-> 0]
\* cls groups the kinds: "size" (InsufficientSize), "align" (BadAlign), "content" (InvalidData, InvalidEnumTag)
\* plen: width of the offending field (accept set of positions for C19 is pos .. pos+plen-1)
Err(kind, pos, cls, plen) == [ok |-> FALSE, val |-> <<>>, kind |-> kind, pos |-> pos, cls |-> cls, plen |-> plen]
Shift(r, d) == IF r.ok THEN r ELSE [r EXCEPT !.pos = @ + d]
ErrSize(pos)  == Err("InsufficientSize", pos, "size", 0)
ErrAlign(pos) == Err("BadAlign", pos, "align", 0)

\* ---- UTF-8 (RFC 3629, what core::str::from_utf8 accepts) -----------------
InR(x, a, b) == a <= x /\ x <= b
Utf8SeqLen(s, i) ==       \* length of the well-formed sequence starting at s[i], 0 if malformed
  LET b == s[i]  n == Len(s)
      c(k) == i + k <= n /\ InR(s[i + k], 128, 191)
      c1(a, z) == i + 1 <= n /\ InR(s[i + 1], a, z)
  IN IF b <= 127 THEN 1
     ELSE IF InR(b, 194, 223) THEN (IF c(1) THEN 2 ELSE 0)
     ELSE IF b = 224 THEN (IF c1(160, 191) /\ c(2) THEN 3 ELSE 0)
     ELSE IF InR(b, 225, 236) \/ InR(b, 238, 239) THEN (IF c(1) /\ c(2) THEN 3 ELSE 0)
     ELSE IF b = 237 THEN (IF c1(128, 159) /\ c(2) THEN 3 ELSE 0)
     ELSE IF b = 240 THEN (IF c1(144, 191) /\ c(2) /\ c(3) THEN 4 ELSE 0)
     ELSE IF InR(b, 241, 243) THEN (IF c(1) /\ c(2) /\ c(3) THEN 4 ELSE 0)
     ELSE IF b = 244 THEN (IF c1(128, 143) /\ c(2) /\ c(3) THEN 4 ELSE 0)
     ELSE 0
Utf8ValidUpTo(s) ==
  LET RECURSIVE go(_)
      go(i) == IF i > Len(s) THEN Len(s)
               ELSE LET k == Utf8SeqLen(s, i) IN IF k = 0 THEN i - 1 ELSE go(i + k)
  IN go(1)
Utf8Ok(s) == Utf8ValidUpTo(s) = Len(s)

(***************************************************************************)
(* The reference decoder.  Precondition of Dec: bs starts at an address    *)
(* aligned for t and Len(bs) >= MinSize(t) (Validate checks both).         *)
(* Well-formedness is judged on the bytes the view covers.                 *)
(***************************************************************************)
RECURSIVE Dec(_, _), FlexWalk(_, _, _, _, _)

DecFieldList(fs, bs) ==
  LET offs == FieldOffs(fs)
      RECURSIVE go(_, _)
      go(i, acc) ==
        IF i > Len(fs) THEN Ok(acc)
        ELSE LET o   == offs[i]
                 sub == IF IsSized(fs[i]) THEN SubSeq(bs, o + 1, o + StaticSize(fs[i]))
                        ELSE SubSeq(bs, o + 1, Len(bs))
                 r   == Dec(fs[i], sub)
             IN IF r.ok THEN go(i + 1, Append(acc, r.val)) ELSE Shift(r, o)
  IN go(1, <<>>)

DecElems(e, bs, d, es, n) ==        \* n elements of type e starting at offset d
  LET RECURSIVE go(_, _)
      go(i, acc) == IF i >= n THEN Ok(acc)
                    ELSE LET r == Dec(e, SubSeq(bs, d + i * es + 1, d + (i + 1) * es))
                         IN IF r.ok THEN go(i + 1, Append(acc, r.val)) ELSE Shift(r, d + i * es)
  IN go(0, <<>>)

Validate(t, bs, addr) ==
  IF addr % Align(t) # 0 THEN ErrAlign(0)
  ELSE IF Len(bs) < MinSize(t) THEN ErrSize(0)
  ELSE Dec(t, bs)

\* V: length of the view; p: position of the current offset slot; acc: items decoded so far
FlexWalk(t, bs, V, p, acc) ==
  LET l == t.lt[1]  os == FlexOffsetSize(t)  a == Align(t)  rest == V - p  e == t.elem[1] IN
  IF rest < l.size THEN ErrSize(p) ELSE
  LET slot == SubSeq(bs, p + 1, p + l.size)  v == LenVal(l, slot) IN
  IF v = 0 THEN Ok([items |-> acc]) ELSE
  IF IsMaxBytes(slot) THEN
       IF rest < os THEN ErrSize(p)
       ELSE LET r == Validate(e, SubSeq(bs, p + os + 1, V), 0)
            IN IF r.ok THEN Ok([items |-> Append(acc, [reg |-> 0, v |-> r.val])]) ELSE Shift(r, p + os)
  ELSE IF v < os    THEN ErrSize(p + os)
  ELSE IF v % a # 0 THEN ErrAlign(p)
  ELSE IF v > rest  THEN ErrSize(p)
  ELSE LET r == Validate(e, SubSeq(bs, p + os + 1, p + v), 0)
       IN IF r.ok THEN FlexWalk(t, bs, V, p + v, Append(acc, [reg |-> v, v |-> r.val]))
          ELSE Shift(r, p + os)

Dec(t, bs) ==
  IF Len(bs) < MinSize(t) THEN ErrSize(0) ELSE
  CASE t.k \in {"prim", "pint", "pfloat"} -> Ok(ScalarDigits(t, SubSeq(bs, 1, t.size)))
    [] t.k = "unit" -> Ok(<<>>)
    [] t.k = "bool" -> IF bs[1] \in {0, 1} THEN Ok(bs[1]) ELSE Err("InvalidData", 0, "content", 1)
    [] t.k = "arr"  -> DecElems(t.elem[1], bs, 0, StaticSize(t.elem[1]), t.n)
    [] t.k = "vec"  ->
         LET d == VecDataOffset(t)  e == t.elem[1]  es == StaticSize(e)
             cap == VecCap(t, Len(bs))
             n == LenVal(t.lt[1], SubSeq(bs, 1, t.lt[1].size))
         IN IF n > cap THEN ErrSize(d)
            ELSE LET r == DecElems(e, bs, d, es, n)
                 IN IF r.ok THEN Ok([cap |-> cap, items |-> r.val]) ELSE r
    [] t.k = "str"  ->
         LET d == StrDataOffset(t)
             cap == StrCap(t, Len(bs))
             n == LenVal(t.lt[1], SubSeq(bs, 1, t.lt[1].size))
         IN IF n > cap THEN ErrSize(d)
            ELSE LET s == SubSeq(bs, d + 1, d + n)  u == Utf8ValidUpTo(s)
                 IN IF u = n THEN Ok([cap |-> cap, bytes |-> s])
                    ELSE Err("InvalidData", d + u, "content", 1)
    [] t.k = "flex" -> FlexWalk(t, bs, FlexView(t, Len(bs)), 0, <<>>)
    [] t.k = "struct" ->
         IF t.sized THEN DecFieldList(t.fields, bs)
         ELSE DecFieldList(t.fields, SubSeq(bs, 1, FloorMul(Len(bs), Align(t))))
    [] t.k = "enum" ->
         LET tag == NumLE(SubSeq(bs, 1, t.size)) IN          \* native (host, little-endian) tag
         IF tag >= Len(t.vars) THEN Err("InvalidEnumTag", 0, "content", t.size)
         ELSE IF IsCLike(t) THEN Ok([tag |-> tag + 1, fs |-> <<>>])
         ELSE LET d == EnumDataOffset(t)
                  vs == t.vars[tag + 1]
                  data == IF t.sized THEN SubSeq(bs, d + 1, StaticSize(t))
                          ELSE SubSeq(bs, d + 1, d + EnumDataLen(t, Len(bs)))
              IN IF Len(data) < FieldsEnd(vs) THEN ErrSize(d)
                 ELSE LET r == DecFieldList(vs, data)
                      IN IF r.ok THEN Ok([tag |-> tag + 1, fs |-> r.val]) ELSE Shift(r, d)

(***************************************************************************)
(* The reference encoder.  Enc(v, t, L) has length L for unsized t and     *)
(* StaticSize(t) for sized t (L is ignored then).                          *)
(***************************************************************************)
RECURSIVE Enc(_, _, _)

EncFields(fs, vals, total) ==       \* fields placed in a region of `total` bytes; an unsized tail gets the rest
  LET offs == FieldOffs(fs)
      RECURSIVE go(_, _)
      go(i, acc) ==
        IF i > Len(fs) THEN acc
        ELSE go(i + 1, Overlay(acc, offs[i], Enc(vals[i], fs[i], total - offs[i])))
  IN go(1, Rep(total, ANY))

EncElems(e, vals) ==
  LET RECURSIVE go(_) go(i) == IF i > Len(vals) THEN <<>> ELSE Enc(vals[i], e, 0) \o go(i + 1) IN go(1)

EncFlex(v, t, L) ==
  LET l == t.lt[1]  os == FlexOffsetSize(t)  V == FlexView(t, L)  e == t.elem[1]
      RECURSIVE go(_, _, _)
      go(i, p, acc) ==
        IF i > Len(v.items) THEN
             (IF p + l.size <= V /\ (i = 1 \/ v.items[i - 1].reg # 0) THEN Overlay(acc, p, LenBytes(l, 0)) ELSE acc)
        ELSE LET it == v.items[i]
                 room == IF it.reg = 0 THEN V - p - os ELSE it.reg - os
                 slot == IF it.reg = 0 THEN MaxBytes(l) ELSE LenBytes(l, it.reg)
                 a2 == Overlay(Overlay(acc, p, slot), p + os, Enc(it.v, e, room))
             IN IF it.reg = 0 THEN a2 ELSE go(i + 1, p + it.reg, a2)
  IN go(1, 0, Rep(L, ANY))

Enc(v, t, L) ==
  CASE t.k \in {"prim", "pint", "pfloat"} -> ScalarBytes(t, v)
    [] t.k = "unit" -> <<>>
    [] t.k = "bool" -> <<v>>
    [] t.k = "arr"  -> EncElems(t.elem[1], v)
    [] t.k = "vec"  -> Overlay(Overlay(Rep(L, ANY), 0, LenBytes(t.lt[1], Len(v.items))),
                               VecDataOffset(t), EncElems(t.elem[1], v.items))
    [] t.k = "str"  -> Overlay(Overlay(Rep(L, ANY), 0, LenBytes(t.lt[1], Len(v.bytes))),
                               StrDataOffset(t), v.bytes)
    [] t.k = "flex" -> EncFlex(v, t, L)
    [] t.k = "struct" ->
         IF t.sized THEN EncFields(t.fields, v, StaticSize(t))
         ELSE Overlay(Rep(L, ANY), 0, EncFields(t.fields, v, FloorMul(L, Align(t))))
    [] t.k = "enum" ->
         LET total == IF t.sized THEN StaticSize(t) ELSE L
             tagb  == DigitsLE(v.tag - 1, t.size)
         IN IF IsCLike(t) THEN tagb
            ELSE LET d == EnumDataOffset(t)
                     room == IF t.sized THEN StaticSize(t) - d ELSE EnumDataLen(t, L)
                 IN Overlay(Overlay(Rep(total, ANY), 0, tagb), d, EncFields(t.vars[v.tag], v.fs, room))

\* instantiate the undetermined bytes
Fill(img, g) == [i \in 1..Len(img) |-> IF img[i] = ANY THEN g ELSE img[i]]

(***************************************************************************)
(* Extent and content.                                                     *)
(***************************************************************************)
RECURSIVE Size(_, _), Content(_, _)

FlexItemPos(v, i) ==          \* position of the offset slot of item i (items before it are sealed)
  LET RECURSIVE go(_) go(j) == IF j >= i THEN 0 ELSE v.items[j].reg + go(j + 1) IN go(1)

FieldsSize(fs, vals) ==       \* end of the used data of a field list
  IF fs = <<>> THEN 0
  ELSE LET n == Len(fs) IN FieldOffs(fs)[n] + Size(vals[n], fs[n])

Size(v, t) ==
  CASE IsSized(t) -> StaticSize(t)
    [] t.k = "vec"  -> CeilMul(VecDataOffset(t) + Len(v.items) * StaticSize(t.elem[1]), Align(t))
    [] t.k = "str"  -> CeilMul(StrDataOffset(t) + Len(v.bytes), Align(t))
    [] t.k = "flex" ->
         LET os == FlexOffsetSize(t)  n == Len(v.items) IN
         IF n = 0 THEN os
         ELSE LET p == FlexItemPos(v, n)  it == v.items[n]
              IN IF it.reg = 0 THEN p + os + CeilMul(Size(it.v, t.elem[1]), Align(t))
                 ELSE p + it.reg + os                 \* zero-terminated: the terminator slot is part of the value
    [] t.k = "struct" -> CeilMul(FieldsSize(t.fields, v), Align(t))
    [] t.k = "enum" -> CeilMul(EnumDataOffset(t) + FieldsSize(t.vars[v.tag], v.fs), Align(t))

Content(v, t) ==
  CASE t.k \in {"prim", "pint", "pfloat", "unit", "bool"} -> v
    [] t.k = "arr"  -> [i \in 1..Len(v) |-> Content(v[i], t.elem[1])]
    [] t.k = "vec"  -> [i \in 1..Len(v.items) |-> Content(v.items[i], t.elem[1])]
    [] t.k = "str"  -> v.bytes
    [] t.k = "flex" -> [i \in 1..Len(v.items) |-> Content(v.items[i].v, t.elem[1])]
    [] t.k = "struct" -> [i \in 1..Len(v) |-> Content(v[i], t.fields[i])]
    [] t.k = "enum" -> [tag |-> v.tag, fs |-> [i \in 1..Len(v.fs) |-> Content(v.fs[i], t.vars[v.tag][i])]]

\* equality of the contents of two trees of the same type (typed recursion: TLC cannot compare the
\* field lists of two different enum variants with "=")
RECURSIVE SameContent(_, _, _)
SameSeq(a, b, ts) == Len(a) = Len(b) /\ \A i \in 1..Len(a) : SameContent(a[i], b[i], ts[i])
SameAll(a, b, t)  == Len(a) = Len(b) /\ \A i \in 1..Len(a) : SameContent(a[i], b[i], t)
SameContent(a, b, t) ==
  CASE t.k \in {"prim", "pint", "pfloat", "unit", "bool"} -> a = b
    [] t.k = "arr"  -> SameAll(a, b, t.elem[1])
    [] t.k = "vec"  -> SameAll(a.items, b.items, t.elem[1])
    [] t.k = "str"  -> a.bytes = b.bytes
    [] t.k = "flex" -> Len(a.items) = Len(b.items) /\ \A i \in 1..Len(a.items) : SameContent(a.items[i].v, b.items[i].v, t.elem[1])
    [] t.k = "struct" -> SameSeq(a, b, t.fields)
    [] t.k = "enum" -> a.tag = b.tag /\ SameSeq(a.fs, b.fs, t.vars[a.tag])
\* equality of annotated trees: contents, capacities and regions
RECURSIVE SameTree(_, _, _)
SameTree(a, b, t) ==
  CASE t.k \in {"prim", "pint", "pfloat", "unit", "bool"} -> a = b
    [] t.k = "arr"  -> Len(a) = Len(b) /\ \A i \in 1..Len(a) : SameTree(a[i], b[i], t.elem[1])
    [] t.k = "vec"  -> a.cap = b.cap /\ Len(a.items) = Len(b.items) /\ \A i \in 1..Len(a.items) : SameTree(a.items[i], b.items[i], t.elem[1])
    [] t.k = "str"  -> a.cap = b.cap /\ a.bytes = b.bytes
    [] t.k = "flex" -> Len(a.items) = Len(b.items) /\ \A i \in 1..Len(a.items) :
                          a.items[i].reg = b.items[i].reg /\ SameTree(a.items[i].v, b.items[i].v, t.elem[1])
    [] t.k = "struct" -> Len(a) = Len(b) /\ \A i \in 1..Len(a) : SameTree(a[i], b[i], t.fields[i])
    [] t.k = "enum" -> a.tag = b.tag /\ Len(a.fs) = Len(b.fs) /\ \A i \in 1..Len(a.fs) : SameTree(a.fs[i], b.fs[i], t.vars[a.tag][i])

\* every container node of the tree holds no more than its capacity
RECURSIVE LenLeCap(_, _)
LenLeCap(v, t) ==
  CASE t.k \in {"prim", "pint", "pfloat", "unit", "bool"} -> TRUE
    [] t.k = "arr"  -> \A i \in 1..Len(v) : LenLeCap(v[i], t.elem[1])
    [] t.k = "vec"  -> Len(v.items) <= v.cap /\ \A i \in 1..Len(v.items) : LenLeCap(v.items[i], t.elem[1])
    [] t.k = "str"  -> Len(v.bytes) <= v.cap
    [] t.k = "flex" -> \A i \in 1..Len(v.items) : LenLeCap(v.items[i].v, t.elem[1])
    [] t.k = "struct" -> \A i \in 1..Len(v) : LenLeCap(v[i], t.fields[i])
    [] t.k = "enum" -> \A i \in 1..Len(v.fs) : LenLeCap(v.fs[i], t.vars[v.tag][i])

(***************************************************************************)
(* Theorems of the format (checked by TLC over catalog x values, MCCodec). *)
(***************************************************************************)
Fills == {0, 90, 255}

\* decoding the image of a tree gives the tree back, whatever the undetermined bytes hold
RoundTrip(v, t, L) == \A g \in Fills : LET r == Validate(t, Fill(Enc(v, t, L), g), 0) IN r.ok /\ SameTree(r.val, v, t)

\* size() is inside the view and sufficient: the first Size bytes decode to the same content and size
SizeSufficient(v, t, L) ==
  LET s == Size(v, t) IN
  /\ s <= ViewLen(t, L)
  /\ s % Align(t) = 0
  /\ \A g \in Fills :
       LET r == Validate(t, SubSeq(Fill(Enc(v, t, L), g), 1, s), 0)
       IN r.ok /\ SameContent(r.val, v, t) /\ Size(r.val, t) = s
=============================================================================
