----------------------------- MODULE FlatValues -----------------------------
(***************************************************************************)
(* Finite sets of representative trees of a type, used to enumerate valid  *)
(* images (C03, C05, C06, C19, C20) and initial states of FlatMem.          *)
(*                                                                         *)
(* SV(t)        sequence of representative values of a sized type          *)
(* UV(t, L)     set of all trees of an unsized type that fit an L-byte     *)
(*              slice, with element / item values drawn from SV / UV and   *)
(*              lengths bounded by MaxLen, MaxItems                        *)
(***************************************************************************)
EXTENDS FlatCodec

CONSTANTS NV,        \* number of representative values per scalar (1..3)
          MaxLen,    \* bound on FlatVec / FlatString lengths enumerated
          MaxItems   \* bound on FlexVec item counts enumerated

\* representative scalar values, as little-endian digit sequences of the value
ScalarVal(t, j) ==
  IF j = 1 THEN Rep(t.size, 0)
  ELSE IF j = 2 THEN [i \in 1..t.size |-> i]           \* 01 02 03 .. : every byte distinct (byte order visible)
  ELSE Rep(t.size, 255)

Pick(s, j) == s[((j - 1) % Len(s)) + 1]

RECURSIVE SV(_)
DiagFields(fs, j) == [i \in 1..Len(fs) |-> Pick(SV(fs[i]), j)]
SV(t) ==
  CASE t.k \in {"prim", "pint", "pfloat"} -> [j \in 1..NV |-> ScalarVal(t, j)]
    [] t.k = "unit" -> << <<>> >>
    [] t.k = "bool" -> <<0, 1>>
    [] t.k = "arr"  -> LET ev == SV(t.elem[1]) IN
                       [j \in 1..Len(ev) |-> [i \in 1..t.n |-> IF j = 2 THEN Pick(ev, i) ELSE ev[j]]]
    [] t.k = "struct" -> [j \in 1..NV |-> DiagFields(t.fields, j)]
    [] t.k = "enum" ->
         LET RECURSIVE go(_)
             go(i) == IF i > Len(t.vars) THEN <<>>
                      ELSE (IF t.vars[i] = <<>> THEN << [tag |-> i, fs |-> <<>>] >>
                            ELSE [j \in 1..NV |-> [tag |-> i, fs |-> DiagFields(t.vars[i], j)]]) \o go(i + 1)
         IN go(1)
\* TLC cannot build *sets* of trees of different shapes (it would have to compare, say, the field
\* lists of two enum variants), so collections of trees are sequences throughout.
Flatten(ss) == LET RECURSIVE go(_) go(i) == IF i > Len(ss) THEN <<>> ELSE ss[i] \o go(i + 1) IN go(1)
SetToSeq(S) == LET RECURSIVE go(_) go(R) == IF R = {} THEN <<>> ELSE LET x == CHOOSE x \in R : \A y \in R : x <= y IN <<x>> \o go(R \ {x}) IN go(S)

\* candidate strings (UTF-8 byte sequences): "", "a", "ab", e-acute, euro sign, "abc", "a" + euro, emoji, "abcde"
Strings == << <<>>, <<97>>, <<97, 98>>, <<195, 169>>, <<226, 130, 172>>, <<97, 98, 99>>,
              <<97, 226, 130, 172>>, <<240, 159, 152, 128>>, <<97, 98, 99, 100, 101>> >>

RECURSIVE UV(_, _), FlexTrees(_, _, _, _)

\* trees of type t (sized or not) in a region of L bytes, as a sequence
TV(t, L) == IF L < MinSize(t) THEN <<>> ELSE IF IsSized(t) THEN SV(t) ELSE UV(t, L)

FieldTrees(fs, L) ==          \* value sequences for a field list in a region of L bytes (tail may be unsized)
  IF fs = <<>> THEN << <<>> >>
  ELSE LET n == Len(fs)  offs == FieldOffs(fs) IN
       IF IsSized(fs[n]) THEN [j \in 1..NV |-> DiagFields(fs, j)]
       ELSE LET tails == TV(fs[n], L - offs[n]) IN
            Flatten([j \in 1..NV |-> [k \in 1..Len(tails) |->
                       [i \in 1..n |-> IF i = n THEN tails[k] ELSE Pick(SV(fs[i]), j)]]])

\* item sequences of a FlexVec starting at slot position p inside a view of V bytes, at most k more items
FlexTrees(t, V, p, k) ==
  LET l == t.lt[1]  os == FlexOffsetSize(t)  a == Align(t)  e == t.elem[1]
      ms == CeilMul(MinSize(e), a)
      stop == IF V - p >= l.size THEN << <<>> >> ELSE <<>>           \* terminated by a zero slot here
      open == IF k > 0 /\ V - p >= os
                THEN LET xs == TV(e, V - p - os) IN [m \in 1..Len(xs) |-> << [reg |-> 0, v |-> xs[m]] >>]
                ELSE <<>>
      regs == SetToSeq({ r \in { os + ms + j * a : j \in 0..2 } : r < LMaxSat(l) /\ p + r + l.size <= V })
      sealed == IF k > 0
                  THEN Flatten([ri \in 1..Len(regs) |->
                         LET r == regs[ri]  xs == TV(e, r - os)  rests == FlexTrees(t, V, p + r, k - 1) IN
                         Flatten([m \in 1..Len(xs) |-> [q \in 1..Len(rests) |-> << [reg |-> r, v |-> xs[m]] >> \o rests[q]]])])
                  ELSE <<>>
  IN stop \o open \o sealed

UV(t, L) ==
  CASE t.k = "vec" ->
         LET cap == VecCap(t, L)  ev == SV(t.elem[1])  nmax == MinI(cap, MaxLen) IN
         <<[cap |-> cap, items |-> <<>>]>> \o
         Flatten([n \in 1..nmax |-> [j \in 1..Len(ev) |->
                    [cap |-> cap, items |-> [i \in 1..n |-> IF j = 2 THEN Pick(ev, i) ELSE ev[j]]]]])
    [] t.k = "str" ->
         LET cap == StrCap(t, L)
             ok == SetToSeq({ i \in DOMAIN Strings : Len(Strings[i]) <= MinI(cap, MaxLen) }) IN
         [m \in 1..Len(ok) |-> [cap |-> cap, bytes |-> Strings[ok[m]]]]
    [] t.k = "flex" -> LET ss == FlexTrees(t, FlexView(t, L), 0, MaxItems) IN [m \in 1..Len(ss) |-> [items |-> ss[m]]]
    [] t.k = "struct" -> FieldTrees(t.fields, FloorMul(L, Align(t)))
    [] t.k = "enum" ->
         LET room == EnumDataLen(t, L) IN
         Flatten([i \in 1..Len(t.vars) |->
                    IF room < FieldsEnd(t.vars[i]) THEN <<>>
                    ELSE LET fts == FieldTrees(t.vars[i], room) IN [m \in 1..Len(fts) |-> [tag |-> i, fs |-> fts[m]]]])
=============================================================================
