SPECIFICATION Spec
CONSTANTS
  NV = 2
  MaxLen = 3
  MaxItems = 2
  ArgVals = 1
  AssignMax = 4
  ContentMax = 24
  TypeIds <- AllIds
INVARIANTS All
CHECK_DEADLOCK FALSE
