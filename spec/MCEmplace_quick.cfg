SPECIFICATION Spec
CONSTANTS
  NV = 2
  MaxLen = 3
  MaxItems = 2
  ArgVals = 1
  AssignMax = 4
  ContentMax = 8
  TypeIds <- AllIds
INVARIANTS ThBuildValid ThBuildContent ThMonotone ThDefaultMinimal ThPortableImage Emit
CHECK_DEADLOCK FALSE
