----------------------------- MODULE FlatTypes -----------------------------
(***************************************************************************)
(* Type descriptors of flatty's flat types.                                *)
(*                                                                         *)
(* A descriptor is a record of uniform shape (so that descriptors can be   *)
(* compared, put in sets and printed as JSON):                             *)
(*   k        kind: "prim" "unit" "bool" "pint" "pfloat" "arr" "vec" "str" *)
(*            "flex" "struct" "enum"                                       *)
(*   name     Rust spelling of a leaf type ("u32", "le::U16", ...); for    *)
(*            struct/enum the identifier of the generated definition       *)
(*   size     byte width of a scalar; tag width of an enum                 *)
(*   align    alignment of a scalar (1 for portable scalars)               *)
(*   be       big-endian storage (portable be:: scalars)                   *)
(*   sg       signed scalar                                                *)
(*   elem     <<t>>  element / item type of arr, vec, flex                 *)
(*   lt       <<t>>  length type of vec, str, flex (a scalar descriptor)   *)
(*   n        array length                                                 *)
(*   fields   field list of a struct                                       *)
(*   vars     list of variants of an enum, each a field list               *)
(*   sized    the definition is declared sized (struct / enum)             *)
(*   portable declared with portable = true                                *)
(*   dflt     0 = no default; struct: 1 = default = true; enum: (1-based)  *)
(*            index of the #[default] variant                              *)
(*   style    how the definition is written: struct "named"/"tuple";       *)
(*            enum: per variant "unit"/"tuple"/"named" is derived from the *)
(*            field list and this flag ("named" variants use field names)  *)
(***************************************************************************)
EXTENDS Integers, Sequences, FiniteSets, TLC

MaxI(a, b) == IF a >= b THEN a ELSE b
MinI(a, b) == IF a <= b THEN a ELSE b
CeilMul(x, m)  == ((x + m - 1) \div m) * m
FloorMul(x, m) == (x \div m) * m

\* TLC integers are 32 bit.  Numbers read from length / offset fields saturate here.
BIG == 1000000

T0(k) == [k |-> k, name |-> "", size |-> 0, align |-> 1, be |-> FALSE, sg |-> FALSE,
          elem |-> <<>>, lt |-> <<>>, n |-> 0, fields |-> <<>>, vars |-> <<>>,
          sized |-> TRUE, portable |-> FALSE, dflt |-> 0, style |-> "named",
          gen |-> FALSE]    \* written as a generic definition (type parameters for the sized field / element types) and instantiated

\* ---- scalars -----------------------------------------------------------
Prim(name, s, signed) == [T0("prim") EXCEPT !.name = name, !.size = s, !.align = s, !.sg = signed]
U8   == Prim("u8", 1, FALSE)      I8   == Prim("i8", 1, TRUE)
U16  == Prim("u16", 2, FALSE)     I16  == Prim("i16", 2, TRUE)
U32  == Prim("u32", 4, FALSE)     I32  == Prim("i32", 4, TRUE)
U64  == Prim("u64", 8, FALSE)     I64  == Prim("i64", 8, TRUE)
U128 == Prim("u128", 16, FALSE)   I128 == Prim("i128", 16, TRUE)
F32  == Prim("f32", 4, FALSE)     F64  == Prim("f64", 8, FALSE)
Unit == [T0("unit") EXCEPT !.name = "()", !.portable = TRUE]
BoolT == [T0("bool") EXCEPT !.name = "Bool", !.size = 1, !.portable = TRUE]

PInt(name, s, bigend, signed) ==
  [T0("pint") EXCEPT !.name = name, !.size = s, !.align = 1, !.be = bigend, !.sg = signed, !.portable = TRUE]
LeU16 == PInt("le::U16", 2, FALSE, FALSE)   BeU16 == PInt("be::U16", 2, TRUE, FALSE)
LeU32 == PInt("le::U32", 4, FALSE, FALSE)   BeU32 == PInt("be::U32", 4, TRUE, FALSE)
LeU64 == PInt("le::U64", 8, FALSE, FALSE)   BeU64 == PInt("be::U64", 8, TRUE, FALSE)
LeI16 == PInt("le::I16", 2, FALSE, TRUE)    BeI16 == PInt("be::I16", 2, TRUE, TRUE)
LeI32 == PInt("le::I32", 4, FALSE, TRUE)    BeI32 == PInt("be::I32", 4, TRUE, TRUE)
LeI64 == PInt("le::I64", 8, FALSE, TRUE)    BeI64 == PInt("be::I64", 8, TRUE, TRUE)
PFloat(name, s, bigend) ==
  [T0("pfloat") EXCEPT !.name = name, !.size = s, !.align = 1, !.be = bigend, !.portable = TRUE]
LeF32 == PFloat("le::F32", 4, FALSE)   BeF32 == PFloat("be::F32", 4, TRUE)
LeF64 == PFloat("le::F64", 8, FALSE)   BeF64 == PFloat("be::F64", 8, TRUE)

\* u8 / i8 are Portable as they are
IsPortableScalar(t) == t.k \in {"pint", "pfloat", "bool", "unit"} \/ (t.k = "prim" /\ t.size = 1)

\* ---- composites --------------------------------------------------------
RECURSIVE IsPortable(_)
IsPortable(t) ==
  CASE t.k \in {"prim", "unit", "bool", "pint", "pfloat"} -> IsPortableScalar(t)
    [] t.k = "arr"  -> IsPortable(t.elem[1])
    [] t.k = "vec"  -> IsPortable(t.elem[1]) /\ IsPortableScalar(t.lt[1])
    [] t.k = "str"  -> IsPortableScalar(t.lt[1])
    [] t.k = "flex" -> IsPortable(t.elem[1]) /\ IsPortableScalar(t.lt[1])
    [] OTHER        -> t.portable
AllPortable(fs) == \A i \in DOMAIN fs : IsPortable(fs[i])

Arr(t, n)    == [T0("arr")  EXCEPT !.elem = <<t>>, !.n = n]
Vec(t, l)    == [T0("vec")  EXCEPT !.elem = <<t>>, !.lt = <<l>>, !.sized = FALSE]
Str(l)       == [T0("str")  EXCEPT !.lt = <<l>>, !.sized = FALSE]
Flex(t, l)   == [T0("flex") EXCEPT !.elem = <<t>>, !.lt = <<l>>, !.sized = FALSE]

Struct(name, fs)      == [T0("struct") EXCEPT !.name = name, !.fields = fs]
UStruct(name, fs)     == [T0("struct") EXCEPT !.name = name, !.fields = fs, !.sized = FALSE]
Enum(name, ts, vs)    == [T0("enum") EXCEPT !.name = name, !.size = ts, !.vars = vs]
UEnum(name, ts, vs)   == [T0("enum") EXCEPT !.name = name, !.size = ts, !.vars = vs, !.sized = FALSE]
Portable(t)           == [t EXCEPT !.portable = TRUE]
WithDefault(t, d)     == [t EXCEPT !.dflt = d]
Tuple(t)              == [t EXCEPT !.style = "tuple"]
\* A generic definition `Name<P0: Flat, ..>` instantiated with the field types listed here is, for the format, the
\* same type as the monomorphic definition: genericity is transparent (the layout rule sees the instance).
Generic(t)            == [t EXCEPT !.gen = TRUE]

IsScalar(t) == t.k \in {"prim", "pint", "pfloat"}
IsCLike(t)  == t.k = "enum" /\ \A i \in DOMAIN t.vars : t.vars[i] = <<>>

RECURSIVE IsSized(_)
IsSized(t) ==
  CASE t.k \in {"prim", "unit", "bool", "pint", "pfloat"} -> TRUE
    [] t.k = "arr" -> TRUE
    [] t.k \in {"vec", "str", "flex"} -> FALSE
    [] OTHER -> t.sized

(***************************************************************************)
(* Well-formed descriptors: what the #[flat] macro and the containers       *)
(* accept.  (A sized definition has only sized fields; in an unsized       *)
(* struct exactly the last field is unsized; in an unsized enum only the   *)
(* last field of a variant may be unsized; element types are sized.)       *)
(***************************************************************************)
RECURSIVE WellFormed(_)
FieldsOk(fs, unsizedAllowed) ==
  \A i \in DOMAIN fs :
     /\ WellFormed(fs[i])
     /\ (IsSized(fs[i]) \/ (unsizedAllowed /\ i = Len(fs)))
WellFormed(t) ==
  CASE t.k \in {"prim", "pint", "pfloat"} -> t.size \in {1, 2, 4, 8, 16}
    [] t.k \in {"unit", "bool"} -> TRUE
    [] t.k = "arr"  -> WellFormed(t.elem[1]) /\ IsSized(t.elem[1]) /\ t.n >= 0
    [] t.k = "vec"  -> WellFormed(t.elem[1]) /\ IsSized(t.elem[1]) /\ IsScalar(t.lt[1]) /\ ~t.lt[1].sg
    [] t.k = "str"  -> IsScalar(t.lt[1]) /\ ~t.lt[1].sg
    [] t.k = "flex" -> WellFormed(t.elem[1]) /\ IsScalar(t.lt[1]) /\ ~t.lt[1].sg
    [] t.k = "struct" ->
         IF t.sized THEN FieldsOk(t.fields, FALSE)
         ELSE Len(t.fields) >= 1 /\ FieldsOk(t.fields, TRUE) /\ ~IsSized(t.fields[Len(t.fields)])
    [] t.k = "enum" ->
         /\ t.size \in {1, 2, 4}
         /\ Len(t.vars) >= 1
         /\ \A i \in DOMAIN t.vars : FieldsOk(t.vars[i], ~t.sized)
         /\ (~t.sized => ~IsCLike(t))
         /\ (t.dflt > 0 => t.dflt \in DOMAIN t.vars /\ t.vars[t.dflt] = <<>>)
\* what the macro may accept: well-formed, and a definition declared portable has only portable fields
RECURSIVE Acceptable(_)
Acceptable(t) ==
  /\ WellFormed(t)
  /\ CASE t.k = "struct" -> (\A i \in DOMAIN t.fields : Acceptable(t.fields[i])) /\ (t.portable => AllPortable(t.fields))
       [] t.k = "enum" -> \A i \in DOMAIN t.vars : (\A j \in DOMAIN t.vars[i] : Acceptable(t.vars[i][j])) /\ (t.portable => AllPortable(t.vars[i]))
       [] t.k \in {"arr", "vec", "flex"} -> Acceptable(t.elem[1])
       [] OTHER -> TRUE
=============================================================================
