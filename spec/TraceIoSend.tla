----------------------------- MODULE TraceIoSend -----------------------------
(***************************************************************************)
(* Trace validation (implementation -> specification) of the sender.       *)
(*                                                                         *)
(* Input: NDJSON, one line per recorded run of the real blocking or async  *)
(* Sender over a scripted sink (harness/src/io.rs): in program order, the  *)
(* window hooks of the cargo feature `verif` (advance by alloc, clear      *)
(* after a complete write, poison), the message as emplaced under the      *)
(* SendGuard, every pipe call with the bytes offered to it and the number  *)
(* accepted (write / zero-length write / write error / flush) and what     *)
(* send() returned.                                                        *)
(*                                                                         *)
(* Every event must be a step the sender specification (IoSend) allows:    *)
(* alloc hands out the whole buffer; the emplaced message is a valid value *)
(* of the message type cut to its size(); each write offers exactly the    *)
(* part of that message the sink has not accepted yet (nothing skipped,    *)
(* nothing offered twice); the buffer is released only after the last byte *)
(* was accepted (and, for the async sender, after a flush); send returns   *)
(* Ok only then, and Err only after a failed pipe call; the sender is      *)
(* poisoned exactly when a failure left a partial message in the sink, and *)
(* a poisoned sender makes no further pipe call; a guard dropped without   *)
(* send() costs no pipe call and leaves the window allocated.              *)
(***************************************************************************)
EXTENDS Catalog, FlatOps, Json, IOUtils

Runs == ndJsonDeserialize(IOEnv.TRACE)

VARIABLES ri, ei,        \* run, next event of the run
          ws, we,        \* buffer window
          msg, pos,      \* message under the guard / being written, bytes of it accepted by the sink
          fail,          \* the last pipe call failed (error or zero-length write) and send has not returned yet
          flushed,       \* a flush followed the last accepted byte
          retries,       \* pipe calls made after a failed one within the current send (a bounded retry at position 0 is
                         \* within C09: "returns an error after a bounded number of pipe calls")
          poisoned
vars == <<ri, ei, ws, we, msg, pos, fail, flushed, retries, poisoned>>
RetryMax == 3
\* a pipe call is in order when nothing failed, or as a bounded retry while no byte of the message is in the sink
MayCall == ~fail \/ (pos = 0 /\ retries < RetryMax)

Run == Runs[ri]
T == TypeOf(Run.id)
Cap == Run.cap
Evs == Run.events
Rest == SubSeq(msg, pos + 1, Len(msg))

Init == ri = 1 /\ ei = 1 /\ ws = 0 /\ we = 0 /\ msg = <<>> /\ pos = 0 /\ fail = FALSE /\ flushed = FALSE /\ retries = 0 /\ poisoned = FALSE

NextRun ==
  /\ ei > Len(Evs) /\ ri < Len(Runs)
  /\ ri' = ri + 1 /\ ei' = 1 /\ ws' = 0 /\ we' = 0 /\ msg' = <<>> /\ pos' = 0 /\ fail' = FALSE /\ flushed' = FALSE /\ retries' = 0 /\ poisoned' = FALSE

Step ==
  /\ ei <= Len(Evs)
  /\ LET ev == Evs[ei]  e == ev.e IN
     CASE ev.t = "hook" /\ e.ev = "advance" ->
            \* alloc: the whole vacancy becomes the guard's buffer
            /\ ~poisoned /\ msg = <<>>
            /\ e.ws = ws /\ e.we = we + e.n /\ e.we = Cap
            /\ we' = e.we /\ UNCHANGED <<ws, msg, pos, fail, flushed, retries, poisoned>>
       [] ev.t = "emplaced" ->
            \* the message under the guard: a valid value of the message type, cut to its size(), at the start of the buffer
            /\ ~poisoned /\ ws = 0 /\ we = Cap /\ e.n = Cap
            /\ LET r == Validate(T, e.offered, 0) IN r.ok /\ Size(r.val, T) = Len(e.offered)
            /\ msg' = e.offered /\ pos' = 0 /\ fail' = FALSE /\ flushed' = FALSE /\ retries' = 0
            /\ UNCHANGED <<ws, we, poisoned>>
       [] ev.t = "pipe" /\ e.ev = "write" ->
            /\ ~poisoned /\ MayCall /\ pos < Len(msg)
            /\ e.offered = Rest                       \* exactly what the sink has not accepted yet
            /\ e.n >= 1 /\ e.n <= Len(e.offered)
            /\ pos' = pos + e.n /\ flushed' = FALSE /\ fail' = FALSE
            /\ retries' = IF fail THEN retries + 1 ELSE retries
            /\ UNCHANGED <<ws, we, msg, poisoned>>
       [] ev.t = "pipe" /\ e.ev \in {"writezero", "writeerr"} ->
            /\ ~poisoned /\ MayCall /\ pos < Len(msg)
            /\ e.offered = Rest
            /\ fail' = TRUE
            /\ retries' = IF fail THEN retries + 1 ELSE retries
            /\ UNCHANGED <<ws, we, msg, pos, flushed, poisoned>>
       [] ev.t = "pipe" /\ e.ev = "flush" ->
            /\ ~poisoned /\ ~fail /\ pos = Len(msg) /\ msg # <<>>
            /\ flushed' = TRUE
            /\ UNCHANGED <<ws, we, msg, pos, fail, retries, poisoned>>
       [] ev.t = "hook" /\ e.ev = "poison" ->
            /\ fail /\ pos > 0                         \* only a partial message in the sink poisons
            /\ poisoned' = TRUE
            /\ UNCHANGED <<ws, we, msg, pos, fail, flushed, retries>>
       [] ev.t = "hook" /\ e.ev = "skip" ->
            \* a sender may drop accepted bytes from its window as it goes (instead of keeping a position): never more
            \* than the sink has accepted; what is offered to the sink is checked at every write regardless
            /\ ~poisoned /\ msg # <<>>
            /\ ws + e.n <= we /\ ws + e.n <= pos
            /\ \/ e.ws = ws + e.n /\ e.we = we /\ ws' = e.ws /\ we' = e.we
               \/ ws + e.n = we /\ e.ws = 0 /\ e.we = 0 /\ ws' = 0 /\ we' = 0
            /\ UNCHANGED <<msg, pos, fail, flushed, retries, poisoned>>
       [] ev.t = "hook" /\ e.ev = "clear" ->
            /\ ~fail /\ ~poisoned /\ pos = Len(msg) /\ msg # <<>>
            /\ (Run.mode = 1 => flushed)               \* the async sender flushes before it releases the buffer
            /\ ws' = 0 /\ we' = 0
            /\ UNCHANGED <<msg, pos, fail, flushed, retries, poisoned>>
       [] ev.t = "ret" /\ e.ev = "ok" ->
            /\ ~fail /\ ~poisoned /\ pos = Len(msg) /\ msg # <<>> /\ we = 0
            /\ msg' = <<>> /\ pos' = 0 /\ retries' = 0
            /\ UNCHANGED <<ws, we, fail, flushed, poisoned>>
       [] ev.t = "ret" /\ e.ev = "dropped" ->
            \* IoSend!Abandon: the guard was dropped without send(); no pipe call was made for this message, the window
            \* stays allocated (SendGuard has no Drop) and the sender is as healthy as before
            /\ ~fail /\ ~poisoned /\ pos = 0 /\ msg # <<>> /\ ws = 0 /\ we = Cap
            /\ msg' = <<>> /\ retries' = 0
            /\ UNCHANGED <<ws, we, pos, fail, flushed, poisoned>>
       [] ev.t = "ret" /\ e.ev = "err" ->
            /\ fail /\ (poisoned <=> pos > 0)
            /\ msg' = <<>> /\ pos' = 0 /\ fail' = FALSE /\ retries' = 0
            /\ UNCHANGED <<ws, we, flushed, poisoned>>
       [] OTHER -> FALSE
  /\ ei' = ei + 1 /\ UNCHANGED ri

Next == Step \/ NextRun
Spec == Init /\ [][Next]_vars

WindowInv == 0 <= ws /\ ws <= we /\ we <= Cap /\ pos <= Len(msg)

TotalEvents == LET RECURSIVE go(_) go(i) == IF i > Len(Runs) THEN 0 ELSE Len(Runs[i].events) + go(i + 1) IN go(1)
Track == TLCSet(42, <<ri, ei>>)
Accepted ==
  IF TLCGet("stats").diameter = TotalEvents + Len(Runs) THEN TRUE
  ELSE LET at == TLCGet(42)  evs == Runs[at[1]].events IN
       Print(<<"TRACE-REJECTED", "run", at[1], "event", at[2],
               IF at[2] <= Len(evs) THEN ToJson(evs[at[2]]) ELSE "end of run", "runid", Runs[at[1]].id>>, FALSE)
=============================================================================
