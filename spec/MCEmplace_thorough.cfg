SPECIFICATION Spec
CONSTANTS
  NV = 3
  MaxLen = 3
  MaxItems = 2
  ArgVals = 1
  AssignMax = 4
  ContentMax = 24
  TypeIds <- AllIds
INVARIANTS ThBuildValid ThBuildContent ThMonotone ThDefaultMinimal ThPortableImage Emit
CHECK_DEADLOCK FALSE
