SPECIFICATION Spec
CONSTANTS
  NV = 2
  MaxLen = 2
  MaxItems = 2
  AssignMax = 4
  ArgVals = 1
  TypeIds = {"V_u8_u8", "V_u64_u32", "V_bool_u8", "S_u8", "S_u16", "X_u8_u8", "X_vu8_u8", "X_vi32_u16", "X_s8_u16", "X_ue1_u8", "US2", "US4", "UE1"}
  LMults = {0, 1, 3}
  BigInit = FALSE
  FollowUps = TRUE
INVARIANTS InvRoundTrip InvSize InvLenCap InvFlexShape
CHECK_DEADLOCK FALSE
