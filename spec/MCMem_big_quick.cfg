SPECIFICATION Spec
CONSTANTS
  NV = 2
  MaxLen = 2
  MaxItems = 2
  AssignMax = 4
  ArgVals = 1
  TypeIds = {"X_vu8_u8"}
  LMults = {0, 1, 3}
  BigInit = TRUE
  FollowUps = FALSE
INVARIANTS InvRoundTrip InvSize InvLenCap InvFlexShape
CONSTRAINT BigBound
CHECK_DEADLOCK FALSE
