SPECIFICATION Spec
CONSTANTS
  NV = 2
  MaxLen = 2
  MaxItems = 2
  Alphabet = {0, 1, 255}
  MaxRaw = 3
  TypeIds = {"V_u8_u8", "US2", "UE1", "X_vu8_u8", "S_u8", "SE4"}
  RawIds = {"V_u8_u8", "X_vu8_u8"}
  FillSet = {0, 255}
  LSteps = 2
INVARIANTS ThRoundTrip ThSize ThCodecTotal ThFraming ThMisaligned ThConsistent Emit
CHECK_DEADLOCK FALSE
