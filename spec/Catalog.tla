------------------------------ MODULE Catalog ------------------------------
(***************************************************************************)
(* The catalog: a finite universe of flat types on which the format's      *)
(* theorems are checked exhaustively and from which the Rust definitions   *)
(* used by the conformance harness are generated (harness/gen.py reads the *)
(* descriptors TLC prints from MCCatalog).  Every kind occurs at least     *)
(* twice, every alignment 1..16, tails with smaller alignment than their   *)
(* struct, variants whose unpadded extent is not a multiple of the enum's  *)
(* alignment, native and portable length types, every item kind inside     *)
(* FlexVec, and the repository's own test types.                           *)
(***************************************************************************)
EXTENDS FlatTypes

\* ---- sized structs -------------------------------------------------------
SS1 == Struct("SS1", <<U8, U16, U32, Arr(U64, 4)>>)                   \* tests/sized_struct
SS2 == Tuple(Struct("SS2", <<U8, U128>>))
SS3 == WithDefault(Struct("SS3", <<BoolT, U32, BoolT>>), 1)
SS4 == Portable(Struct("SS4", <<U8, LeU16, BeU32>>))
SS5 == Struct("SS5", <<Arr(U8, 3)>>)                                  \* size 3, align 1
SS6 == WithDefault(Struct("SS6", <<U16, Arr(BoolT, 3), I64>>), 1)

\* ---- sized enums ---------------------------------------------------------
SE1 == Enum("SE1", 1, << <<>>, <<U16, U8>>, <<U8, U16>>, <<U32>> >>)   \* tests/sized_enum
SE2 == Enum("SE2", 4, << <<U8, U64>>, <<U16>> >>)
SE3 == WithDefault(Enum("SE3", 2, << <<>>, <<>>, <<>> >>), 2)           \* C-like, #[default] on the second variant
SE4 == Enum("SE4", 1, << <<BoolT>>, <<SS3>> >>)
SE5 == Portable(Enum("SE5", 1, << <<>>, <<LeF32, SS4>> >>))

\* ---- containers ----------------------------------------------------------
V_u8_u8    == Vec(U8, U8)
V_u8_u16   == Vec(U8, U16)
V_u8_u32   == Vec(U8, U32)
V_u32_u8   == Vec(U32, U8)
V_u64_u32  == Vec(U64, U32)
V_u128_u8  == Vec(U128, U8)
V_bool_u8  == Vec(BoolT, U8)
V_ss3_u16  == Vec(SS3, U16)
V_i32_u16  == Vec(I32, U16)
V_lei32_leu16 == Vec(LeI32, LeU16)
V_u16_beu32 == Vec(U16, BeU32)
V_ss5_u16  == Vec(SS5, U16)       \* element size 3 does not divide the alignment 2
V_se1_u8   == Vec(SE1, U8)
S_u8       == Str(U8)
S_u16      == Str(U16)
S_u32      == Str(U32)
S_leu16    == Str(LeU16)

X_u8_u8      == Flex(U8, U8)
X_u32_u8     == Flex(U32, U8)                   \* slot wider than the offset type
X_bool_u16   == Flex(BoolT, U16)
X_vu8_u8     == Flex(V_u8_u8, U8)
X_vi32_u16   == Flex(V_i32_u16, U16)            \* containers/src/flex.rs tests
X_s8_u16     == Flex(S_u8, U16)
X_vu8le_le   == Flex(Vec(U8, LeU16), LeU16)
X_x_u8       == Flex(X_u8_u8, U8)
X_unit_u16   == Flex(Unit, U16)                 \* zero-sized items: a sealed item's offset equals the slot size

\* ---- unsized structs -----------------------------------------------------
US1 == WithDefault(UStruct("US1", <<U8, U16, V_u64_u32>>), 1)          \* tests/unsized_struct
US2 == WithDefault(UStruct("US2", <<U32, V_u8_u8>>), 1)                \* tail alignment < struct alignment
US3 == UStruct("US3", <<BoolT, S_u16>>)
US4 == UStruct("US4", <<U16, X_vu8_u8>>)
US6 == WithDefault(Portable(UStruct("US6", <<LeU16, Vec(LeU32, LeU16)>>)), 1)
US7 == Tuple(UStruct("US7", <<U64, Vec(U16, U8)>>))
US8 == UStruct("US8", <<V_u8_u16>>)

\* ---- unsized enums -------------------------------------------------------
UE1 == UEnum("UE1", 1, << <<>>, <<U8, U16>>, <<U32, V_u8_u16>> >>)      \* tests/unsized_enum
UE2 == UEnum("UE2", 1, << <<>>, <<U16, U8>> >>)                         \* unpadded extent 3+2, align 2
UE3 == UEnum("UE3", 1, << <<>>, <<U8, U16>>, <<U8, U16, Arr(U8, 4)>> >>) \* tests/unsized_sized_enum
UE4 == UEnum("UE4", 2, << <<BoolT>>, <<S_u8>> >>)
UE5 == UEnum("UE5", 4, << <<>>, <<US2>> >>)
UE6 == WithDefault(UEnum("UE6", 1, << <<>>, <<I32>>, <<V_i32_u16>> >>), 1)    \* io tests' TestMsg
UE7 == WithDefault(UEnum("UE7", 1, << <<U8>>, <<>>, <<V_u8_u8>> >>), 2)      \* #[default] is not the first variant
UE8 == UEnum("UE8", 1, << <<X_vu8_u8>> >>)
UE9 == Portable(UEnum("UE9", 1, << <<>>, <<LeF32, SS4>>, <<US6>> >>))

UE10 == UEnum("UE10", 1, << <<>>, <<U8, U32, V_u8_u16>> >>)                  \* interior padding before a field, tail less aligned
UE11 == UEnum("UE11", 1, << <<U8>>, <<U8, U32, U8>>, <<U16>> >>)             \* sized 3-field variant with interior padding, not the smallest
UE12 == WithDefault(UEnum("UE12", 1, << <<>>, <<>>, <<V_u8_u8>> >>), 2)       \* two unit variants, #[default] on the second
UE13 == WithDefault(UEnum("UE13", 2, << <<>>, <<U8>>, <<V_u8_u8>> >>), 1)     \* wide tag with a default
UE14 == UEnum("UE14", 1, << <<>>, <<U8, UE2>> >>)                            \* unsized enum as the tail of a variant
US9  == UStruct("US9", <<U32, Vec(SS5, U8)>>)                                \* tail whose element size (3) divides nothing
US10 == WithDefault(UStruct("US10", <<U8, U64, V_u8_u16>>), 1)               \* 7 bytes of interior padding, tail align 2 < 8
PE16 == Portable(UEnum("PE16", 2, << <<>>, <<LeU16, Vec(U8, LeU16)>> >>))    \* known-bad: portable enum with a 2-byte native tag (finding #13)
PS32 == Portable(Enum("PS32", 4, << <<>>, <<LeU32>> >>))                     \* known-bad: sized portable enum with a 4-byte tag
V_unit_u8 == Vec(Unit, U8)
SS7  == Portable(Struct("SS7", <<BeI16, LeI64, BeI64, LeI32, BeF64>>))          \* signed big-endian scalars (byte order of negative values)
US11 == UStruct("US11", <<U8, U32, U8, V_u8_u8>>)                              \* four fields: padding that no later field re-absorbs
UE15 == UEnum("UE15", 1, << <<V_u8_u16>>, <<U32, V_u8_u8>>, <<U16>> >>)         \* two unsized variants whose headers overlap
UE16 == WithDefault(UEnum("UE16", 1, << <<U32>>, <<V_u8_u8>>, <<>> >>), 3)      \* the #[default] unit variant is declared last
PE1  == Portable(UEnum("PE1", 1, << <<>>, <<U8, LeU16, Vec(U8, LeU16)>>, <<U8, LeU32, LeU16, Arr(U8, 3)>> >>))   \* packed fields at odd offsets
V_u16_u64 == Vec(U16, U64)                                                     \* usize-wide length types
S_u64     == Str(U64)
X_u8_u64  == Flex(U8, U64)                                                   \* zero-sized elements

\* ---- generic definitions (instantiated) ---------------------------------------------------------
GS1 == Generic(Struct("GS1", <<U8, U32, Arr(U8, 3)>>))
GS2 == Generic(Tuple(WithDefault(Struct("GS2", <<U16, SS3, U16>>), 1)))
GE1 == Generic(WithDefault(Enum("GE1", 1, << <<U16>>, <<U8, U16>>, <<>> >>), 3))
GE2 == Generic(Enum("GE2", 2, << <<U32, U8>>, <<>>, <<Arr(U32, 2)>> >>))
GU1 == Generic(WithDefault(UStruct("GU1", <<U8, U32, Vec(U8, U16)>>), 1))
GU2 == Generic(Tuple(UStruct("GU2", <<U16, SE1, Vec(SE1, U8)>>)))
GX1 == Generic(WithDefault(UEnum("GX1", 1, << <<>>, <<U16, Vec(U16, U8)>>, <<U16, U32>> >>), 1))
GX2 == Generic(UEnum("GX2", 2, << <<U32>>, <<U8, Vec(U32, U8)>>, <<S_u8>> >>))
GP1 == Generic(WithDefault(Portable(UStruct("GP1", <<LeU16, BoolT, Vec(LeU32, LeU16)>>)), 1))
GP2 == Generic(Portable(UEnum("GP2", 1, << <<>>, <<U8, LeU32, Vec(LeU16, LeU16)>>, <<BeU16>> >>)))

\* arrays of zero-sized and of compound elements
SS8 == Struct("SS8", <<U8, Arr(SS3, 2), Arr(Unit, 3)>>)
US12 == UStruct("US12", <<Arr(SE1, 2), Arr(Unit, 2), V_u8_u8>>)

\* defaults on structs whose sized prefix ends off the struct's alignment, in front of a less aligned tail
US13 == WithDefault(UStruct("US13", <<U32, U8, S_u8>>), 1)
US14 == WithDefault(UStruct("US14", <<U64, U8, Vec(U16, U16)>>), 1)

US5 == UStruct("US5", <<U8, UE1>>)
X_us2_u16 == Flex(US2, U16)
X_ue1_u8  == Flex(UE1, U8)

\* ---- definitions the #[flat] macro must reject (compile error) ------------------------------------
\* A portable definition may only contain portable fields (C17); a sized definition only sized fields;
\* only the last field of an unsized struct / of a variant may be unsized.
NegCatalog == <<
  [id |-> "N1", t |-> Portable(Struct("N1", <<LeU16, U32>>)),                        why |-> "portable struct whose last field is a native u32"],
  [id |-> "N2", t |-> Portable(Struct("N2", <<U32, LeU16>>)),                        why |-> "portable struct whose first field is a native u32"],
  [id |-> "N3", t |-> Portable(UStruct("N3", <<U8, Vec(LeU16, U32)>>)),              why |-> "portable unsized struct whose tail has a native length type"],
  [id |-> "N4", t |-> Portable(UEnum("N4", 1, << <<>>, <<LeU16, U16>> >>)),          why |-> "portable unsized enum with a native field last in a variant"],
  [id |-> "N5", t |-> Portable(UEnum("N5", 1, << <<>>, <<U8, Vec(U16, U8)>> >>)),    why |-> "portable unsized enum whose variant ends in a vector of native u16"],
  [id |-> "N6", t |-> Struct("N6", <<U8, Vec(U8, U8)>>),                             why |-> "sized struct with an unsized field"],
  [id |-> "N7", t |-> UStruct("N7", <<Vec(U8, U8), Vec(U8, U8)>>),                   why |-> "unsized struct with an unsized field that is not the last"]
>>

C(id, t) == [id |-> id, t |-> t]

Core == <<
  C("u8", U8), C("u32", U32), C("u128", U128), C("i16", I16), C("unit", Unit), C("bool", BoolT),
  C("le_u16", LeU16), C("be_u32", BeU32), C("le_f32", LeF32),
  C("arr_bool3", Arr(BoolT, 3)), C("arr_u16_2", Arr(U16, 2)), C("arr_u8_0", Arr(U8, 0)),
  C("SS1", SS1), C("SS2", SS2), C("SS3", SS3), C("SS4", SS4), C("SS5", SS5), C("SS6", SS6),
  C("SE1", SE1), C("SE2", SE2), C("SE3", SE3), C("SE4", SE4), C("SE5", SE5),
  C("V_u8_u8", V_u8_u8), C("V_u8_u16", V_u8_u16), C("V_u8_u32", V_u8_u32), C("V_u32_u8", V_u32_u8),
  C("V_u64_u32", V_u64_u32), C("V_u128_u8", V_u128_u8), C("V_bool_u8", V_bool_u8), C("V_ss3_u16", V_ss3_u16),
  C("V_i32_u16", V_i32_u16), C("V_lei32_leu16", V_lei32_leu16), C("V_u16_beu32", V_u16_beu32),
  C("V_ss5_u16", V_ss5_u16), C("V_se1_u8", V_se1_u8),
  C("S_u8", S_u8), C("S_u16", S_u16), C("S_u32", S_u32), C("S_leu16", S_leu16),
  C("X_u8_u8", X_u8_u8), C("X_u32_u8", X_u32_u8), C("X_bool_u16", X_bool_u16), C("X_vu8_u8", X_vu8_u8),
  C("X_vi32_u16", X_vi32_u16), C("X_s8_u16", X_s8_u16), C("X_vu8le_le", X_vu8le_le), C("X_x_u8", X_x_u8),
  C("X_us2_u16", X_us2_u16), C("X_ue1_u8", X_ue1_u8), C("X_unit_u16", X_unit_u16),
  C("US1", US1), C("US2", US2), C("US3", US3), C("US4", US4), C("US5", US5), C("US6", US6), C("US7", US7), C("US8", US8),
  C("UE1", UE1), C("UE2", UE2), C("UE3", UE3), C("UE4", UE4), C("UE5", UE5), C("UE6", UE6), C("UE7", UE7),
  C("UE8", UE8), C("UE9", UE9), C("UE10", UE10), C("UE11", UE11), C("UE12", UE12), C("UE13", UE13), C("UE14", UE14),
  C("US9", US9), C("US10", US10), C("PE16", PE16), C("PS32", PS32), C("V_unit_u8", V_unit_u8),
  C("SS7", SS7), C("US11", US11), C("UE15", UE15), C("UE16", UE16), C("PE1", PE1),
  C("V_u16_u64", V_u16_u64), C("S_u64", S_u64), C("X_u8_u64", X_u8_u64),
  C("GS1", GS1), C("GS2", GS2), C("GE1", GE1), C("GE2", GE2), C("GU1", GU1), C("GU2", GU2), C("GX1", GX1), C("GX2", GX2),
  C("GP1", GP1), C("GP2", GP2),
  C("arr_unit_2", Arr(Unit, 2)), C("arr_ss3_2", Arr(SS3, 2)), C("arr_se1_2", Arr(SE1, 2)), C("SS8", SS8), C("US12", US12),
  C("US13", US13), C("US14", US14)
>>

(***************************************************************************)
(* The sweep: systematic families of definitions over the alignments       *)
(* 1, 2, 4, 8 (C04: "every permutation/selection of field types"), used by *)
(* the layout, emplacement and codec models with small value sets.         *)
(***************************************************************************)
\* (written without recursive operators so that TLC evaluates the catalog once, as a constant)
SwF == <<U8, U16, U32, U64>>
SwTail == <<V_u8_u8, Vec(U16, U8), V_u8_u16>>
SwName(p, i, j, k) == p \o ToString(i) \o ToString(j) \o ToString(k)
\* unsized structs { a, b, tail }: 4 x 4 x 2
SweepStructs == [n \in 1..32 |->
                   LET i == ((n - 1) \div 8) + 1  j == (((n - 1) \div 2) % 4) + 1  k == ((n - 1) % 2) + 1 IN
                   C(SwName("WS", i, j, k), UStruct(SwName("WS", i, j, k), <<SwF[i], SwF[j], SwTail[k]>>))]
\* unsized enums { unit, (a, b, c), (b, a, tail) } over the alignments 1, 2, 4: 3 x 3 x 3
SweepEnums == [n \in 1..27 |->
                   LET i == ((n - 1) \div 9) + 1  j == (((n - 1) \div 3) % 3) + 1  k == ((n - 1) % 3) + 1 IN
                   C(SwName("WE", i, j, k), UEnum(SwName("WE", i, j, k), 1, << <<>>, <<SwF[i], SwF[j], SwF[k]>>, <<SwF[j], SwF[i], SwTail[3]>> >>))]
\* sized structs (a, Bool, b) with a default, tuple style for half of them: 4 x 4
SweepSized == [n \in 1..16 |->
                   LET i == ((n - 1) \div 4) + 1  j == ((n - 1) % 4) + 1 IN
                   C(SwName("WT", i, j, 0), WithDefault(IF (i + j) % 2 = 0 THEN Tuple(Struct(SwName("WT", i, j, 0), <<SwF[i], BoolT, SwF[j]>>))
                                                                            ELSE Struct(SwName("WT", i, j, 0), <<SwF[i], BoolT, SwF[j]>>), 1))]
\* unsized enums { (a, tail), (b, c, tail'), unit } with the #[default] on the last (unit) variant: 3 x 3 x 3
SweepEnums2 == [n \in 1..27 |->
                   LET i == ((n - 1) \div 9) + 1  j == (((n - 1) \div 3) % 3) + 1  k == ((n - 1) % 3) + 1 IN
                   C(SwName("WF", i, j, k), WithDefault(UEnum(SwName("WF", i, j, k), 1,
                        << <<SwF[i], SwTail[3]>>, <<SwF[j], SwF[k], SwTail[1]>>, <<>> >>), 3))]
\* unsized structs { a, b, c, tail } over the alignments 1, 4: 2 x 2 x 2 x 2
SweepStructs4 == [n \in 1..16 |->
                   LET i == ((n - 1) \div 8) + 1  j == (((n - 1) \div 4) % 2) + 1  k == (((n - 1) \div 2) % 2) + 1  m == ((n - 1) % 2) + 1
                       f(x) == IF x = 1 THEN U8 ELSE U32 IN
                   C(SwName("WQ", i, j, k) \o ToString(m), UStruct(SwName("WQ", i, j, k) \o ToString(m), <<f(i), f(j), f(k), SwTail[m]>>))]
Sweep == SweepStructs \o SweepEnums \o SweepSized \o SweepEnums2 \o SweepStructs4
CoreIds == {Core[i].id : i \in DOMAIN Core}
Catalog == Core \o Sweep
SweepIds == {Sweep[i].id : i \in DOMAIN Sweep}
CatIds == CoreIds
TypeOf(id) == LET cat == Catalog IN cat[CHOOSE i \in DOMAIN cat : cat[i].id = id].t
=============================================================================
