----------------------------- MODULE MCPortable -----------------------------
(* Vectors for the 16 portable scalar types and Bool: one replayable case per explored state. *)
EXTENDS Portable, Json

CONSTANTS Stride      \* 16-bit types: every Stride-th value is enumerated (1 = all 65536)

PT(name, w, bigend, signed, float) == [name |-> name, w |-> w, be |-> bigend, sg |-> signed, fl |-> float]
Types == << PT("le::U16", 2, FALSE, FALSE, FALSE), PT("le::U32", 4, FALSE, FALSE, FALSE), PT("le::U64", 8, FALSE, FALSE, FALSE),
            PT("le::I16", 2, FALSE, TRUE, FALSE),  PT("le::I32", 4, FALSE, TRUE, FALSE),  PT("le::I64", 8, FALSE, TRUE, FALSE),
            PT("be::U16", 2, TRUE, FALSE, FALSE),  PT("be::U32", 4, TRUE, FALSE, FALSE),  PT("be::U64", 8, TRUE, FALSE, FALSE),
            PT("be::I16", 2, TRUE, TRUE, FALSE),   PT("be::I32", 4, TRUE, TRUE, FALSE),   PT("be::I64", 8, TRUE, TRUE, FALSE),
            PT("le::F32", 4, FALSE, FALSE, TRUE),  PT("le::F64", 8, FALSE, FALSE, TRUE),
            PT("be::F32", 4, TRUE, FALSE, TRUE),   PT("be::F64", 8, TRUE, FALSE, TRUE) >>

\* boundary values of width w: 0, 1, 2, max, max-1, sign boundary and neighbours, 01 02 03.., all ones, -2
Boundary(w) ==
  << ZeroD(w), OneD(w), [i \in 1..w |-> IF i = 1 THEN 2 ELSE 0], MaxD(w, TRUE), MinD(w, TRUE),
     [i \in 1..w |-> IF i = w THEN 127 ELSE IF i = 1 THEN 254 ELSE 255], [i \in 1..w |-> IF i = w THEN 128 ELSE IF i = 1 THEN 1 ELSE 0],
     [i \in 1..w |-> i], Rep(w, 255), [i \in 1..w |-> IF i = 1 THEN 254 ELSE 255],
     [i \in 1..w |-> IF i = 1 THEN 255 ELSE 0], [i \in 1..w |-> IF i <= 2 THEN (IF i = 1 THEN 0 ELSE 1) ELSE 0] >>
\* float bit patterns: +0, -0, 1.0, -1.0, +inf, -inf, quiet NaN, NaN with payload, smallest subnormal, max finite
FloatVals(w) ==
  IF w = 4 THEN << <<0,0,0,0>>, <<0,0,0,128>>, <<0,0,128,63>>, <<0,0,128,191>>, <<0,0,128,127>>, <<0,0,128,255>>, <<0,0,192,127>>, <<1,2,195,127>>, <<1,0,0,0>>, <<255,255,127,127>>, <<1,2,3,4>> >>
  ELSE << <<0,0,0,0,0,0,0,0>>, <<0,0,0,0,0,0,0,128>>, <<0,0,0,0,0,0,240,63>>, <<0,0,0,0,0,0,240,191>>, <<0,0,0,0,0,0,240,127>>, <<0,0,0,0,0,0,240,255>>,
          <<0,0,0,0,0,0,248,127>>, <<1,2,3,4,5,6,249,127>>, <<1,0,0,0,0,0,0,0>>, <<255,255,255,255,255,255,239,127>>, <<1,2,3,4,5,6,7,8>> >>

VARIABLES ti, stage, a, b
vars == <<ti, stage, a, b>>
TY == Types[ti]
Vals(t) == IF t.fl THEN FloatVals(t.w) ELSE Boundary(t.w)

Init == ti \in DOMAIN Types /\ stage = "seed" /\ a = <<>> /\ b = <<>>
\* unary vectors: boundary values, and for 16-bit integers every Stride-th value
Unary == /\ stage = "seed" /\ stage' = "unary" /\ b' = <<>>
         /\ \/ \E i \in DOMAIN Vals(TY) : a' = Vals(TY)[i]
            \/ TY.w = 2 /\ \E n \in {k \in 0..65535 : k % Stride = 0} : a' = DigitsLE(n, 2)
         /\ UNCHANGED ti
Binary == /\ stage = "seed" /\ stage' = "binary"
          /\ \E i \in DOMAIN Vals(TY), j \in DOMAIN Vals(TY) : a' = Vals(TY)[i] /\ b' = Vals(TY)[j]
          /\ UNCHANGED ti
Consts == /\ stage = "seed" /\ stage' = "consts" /\ a' = <<>> /\ b' = <<>> /\ UNCHANGED ti
BoolBytes == /\ stage = "seed" /\ ti = 1 /\ stage' = "bool" /\ b' = <<>> /\ \E n \in 0..255 : a' = <<n>> /\ UNCHANGED ti
Next == Unary \/ Binary \/ Consts \/ BoolBytes
Spec == Init /\ [][Next]_vars

\* ---- theorems -------------------------------------------------------------------------------------
ThUnary == stage = "unary" => ThRoundTrip(TY.be, a) /\ ThBeIsReverse(a) /\ (TY.sg => ThNeg(a) \/ NegInt(a).ovf)
ThBinary == (stage = "binary" /\ ~TY.fl) => ThCmpTotal(TY.sg, a, b) /\ ThAddSub(TY.sg, a, b)
ThConsts == (stage = "consts" /\ ~TY.fl) => ThMinMax(TY.w, TY.sg)

\* ---- vectors --------------------------------------------------------------------------------------
Opt(r) == IF r.some THEN [some |-> TRUE, v |-> r.v] ELSE [some |-> FALSE, v |-> <<>>]
UnaryCase == [k |-> "pscalar", stage |-> "unary", ty |-> TY.name, w |-> TY.w, float |-> TY.fl, a |-> a,
              stored |-> Stored(TY.be, a),
              to_u64 |-> IF TY.fl THEN [native |-> TRUE] ELSE Opt(Convert(TY.sg, a, FALSE, 8)),
              to_i64 |-> IF TY.fl THEN [native |-> TRUE] ELSE Opt(Convert(TY.sg, a, TRUE, 8)),
              from_u64 |-> IF TY.fl THEN [native |-> TRUE] ELSE Opt(Convert(FALSE, Extend(FALSE, a, 8), TY.sg, TY.w)),
              from_i64 |-> IF TY.fl THEN [native |-> TRUE] ELSE Opt(Convert(TRUE, Extend(TRUE, a, 8), TY.sg, TY.w)),
              neg |-> IF TY.sg /\ ~TY.fl THEN NegInt(a) ELSE [native |-> TRUE],
              is_zero |-> IF TY.fl THEN [native |-> TRUE] ELSE [v |-> a = ZeroD(TY.w)]]
BinaryCase == [k |-> "pscalar", stage |-> "binary", ty |-> TY.name, w |-> TY.w, float |-> TY.fl, a |-> a, b |-> b,
               cmp |-> IF TY.fl THEN [native |-> TRUE] ELSE [v |-> CmpInt(TY.sg, a, b)],
               eq |-> (a = b),                       \* equality is equality of the stored bytes
               add |-> IF TY.fl THEN [native |-> TRUE] ELSE AddInt(TY.sg, a, b),
               sub |-> IF TY.fl THEN [native |-> TRUE] ELSE SubInt(TY.sg, a, b)]
ConstsCase == [k |-> "pscalar", stage |-> "consts", ty |-> TY.name, w |-> TY.w, float |-> TY.fl,
               zero |-> IF TY.fl THEN [native |-> TRUE] ELSE [v |-> ZeroD(TY.w)],
               one |-> IF TY.fl THEN [native |-> TRUE] ELSE [v |-> OneD(TY.w)],
               min |-> IF TY.fl THEN [native |-> TRUE] ELSE [v |-> MinD(TY.w, TY.sg)],
               max |-> IF TY.fl THEN [native |-> TRUE] ELSE [v |-> MaxD(TY.w, TY.sg)]]
BoolCase == [k |-> "pscalar", stage |-> "bool", ty |-> "Bool", byte |-> a[1], valid |-> a[1] \in {0, 1}]
Emit == CASE stage = "unary" -> PrintT(<<"CASE", ToJson(UnaryCase)>>)
          [] stage = "binary" -> PrintT(<<"CASE", ToJson(BinaryCase)>>)
          [] stage = "consts" -> PrintT(<<"CASE", ToJson(ConstsCase)>>)
          [] stage = "bool" -> PrintT(<<"CASE", ToJson(BoolCase)>>)
          [] OTHER -> TRUE
=============================================================================
