SPECIFICATION Spec
CONSTANTS
  NV = 3
  MaxLen = 3
  MaxItems = 3
  Alphabet = {0, 1, 2, 3, 4, 8, 255}
  MaxRaw = 5
  TypeIds <- AllIds
  RawIds <- RawAll
  FillSet = {0, 90, 255}
  LSteps = 3
INVARIANTS All
CHECK_DEADLOCK FALSE
