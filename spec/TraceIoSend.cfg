SPECIFICATION Spec
CONSTANTS
  NV = 1
  MaxLen = 1
  MaxItems = 1
  ArgVals = 1
  AssignMax = 1
INVARIANTS WindowInv Track
POSTCONDITION Accepted
CHECK_DEADLOCK FALSE
