SPECIFICATION Spec
CONSTANTS
  Stride = 257
INVARIANTS ThUnary ThBinary ThConsts Emit
CHECK_DEADLOCK FALSE
