SPECIFICATION Spec
CONSTANTS
  NV = 2
  MaxLen = 2
  MaxItems = 2
  Alphabet = {0, 1, 2, 4, 255}
  MaxRaw = 4
  TypeIds <- AllIds
  RawIds <- RawAll
  FillSet = {0, 255}
  LSteps = 2
INVARIANTS All
CHECK_DEADLOCK FALSE
