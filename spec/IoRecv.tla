------------------------------- MODULE IoRecv -------------------------------
(***************************************************************************)
(* The receiving half of flatty-io's framed IO (blocking Receiver over a   *)
(* Read pipe; the async Receiver runs the same steps, see IoAsync).        *)
(*                                                                         *)
(* One action per pipe call or window mutation of                          *)
(*   io/src/blocking/recv.rs   Receiver::recv, RecvGuard::drop             *)
(*   io/src/blocking/io.rs     IoBuffer::read, skip                        *)
(*   io/src/common/io.rs       Buffer::{advance, skip, make_contiguous}    *)
(* Framing uses only Validate (class "size" => read more) and Size, taken  *)
(* from the codec specification: that the guard's skip(size()) stays       *)
(* inside the window is a consequence of SizeSufficient, checked here as   *)
(* GuardInside on the composition.                                         *)
(*                                                                         *)
(* Policy = "any": the envelope -- compaction may happen whenever there is *)
(* something to compact, a read may offer any part of the vacancy.         *)
(* Policy = "code": compaction only when no vacancy is left, the whole     *)
(* vacancy is offered (what the code does); used to enumerate scripts.     *)
(***************************************************************************)
EXTENDS FlatOps, Json

CONSTANTS MsgT,       \* descriptor of the message type
          Streams,    \* sequence of [bytes |-> byte sequence, nmsg |-> number of whole valid messages it is made of or -1]
          MaxMsgLen,  \* max_msg_len given to Receiver::io
          CapExtra,   \* 1000: the buffer Receiver::io allocates (2 * max_msg_len); k < 1000: an explicit IoBuffer whose capacity is
                      \* the largest message plus k bytes (any capacity that can hold the largest message is admissible)
          ChunkMax,   \* largest number of bytes a single read delivers
          FaultMax,   \* how many read errors the environment may inject
          Policy,
          RetainMax,  \* how many guards the user may retain() (forget without consuming the message)
          ErrKinds,   \* io::ErrorKind names the injected read errors are drawn from (the algorithm may not distinguish them)
          Record      \* keep the history variable (FALSE for liveness checking: the state space stays finite and small)

Cap == IF CapExtra < 1000 THEN CeilMul(MaxI(MaxMsgLen, MinSize(MsgT)) + CapExtra, Align(MsgT)) ELSE 2 * MaxI(MaxMsgLen, MinSize(MsgT))

VARIABLES si,         \* index of the stream being received
          rd,         \* bytes of the stream handed to the receiver so far
          buf, ws, we,\* buffer contents and window
          rpc,        \* control point: "idle" "validate" "read" "guard" / terminal: "closed" "parse" "oom"
          cur,        \* size() of the message under the guard
          nret,       \* messages handed out so far
          consumed,   \* bytes consumed by dropped guards
          calls,      \* pipe calls in the current recv
          faults,     \* injected read errors so far
          retained,   \* guards retained so far
          path        \* history: the environment script and the returns (hidden from the state by VIEW)
vars == <<si, rd, buf, ws, we, rpc, cur, nret, consumed, calls, faults, retained, path>>
View == <<si, rd, buf, ws, we, rpc, cur, nret, consumed, calls, faults, retained>>

Stream == Streams[si].bytes
Occupied == SubSeq(buf, ws + 1, we)
Ev(e, n, pos) == [e |-> e, n |-> n, pos |-> pos, kind |-> ""]
EvK(e, n, pos, kind) == [e |-> e, n |-> n, pos |-> pos, kind |-> kind]
Log(ev) == path' = IF Record THEN Append(path, ev) ELSE path

Init ==
  /\ si \in DOMAIN Streams
  /\ rd = 0 /\ buf = Rep(Cap, 0) /\ ws = 0 /\ we = 0
  /\ rpc = "idle" /\ cur = 0 /\ nret = 0 /\ consumed = 0 /\ calls = 0 /\ faults = 0 /\ retained = 0
  /\ path = <<>>

RecvBegin ==
  /\ rpc = "idle"
  /\ rpc' = "validate" /\ calls' = 0
  /\ UNCHANGED <<si, rd, buf, ws, we, cur, nret, consumed, faults, path, retained>>

DoValidate ==
  /\ rpc = "validate"
  /\ LET r == Validate(MsgT, Occupied, 0) IN
       CASE r.ok             -> /\ rpc' = "guard" /\ cur' = Size(r.val, MsgT) /\ nret' = nret + 1
                                /\ Log(Ev("msg", cur', rd))
         [] r.cls = "size"   -> rpc' = "read" /\ UNCHANGED <<cur, nret, path>>
         [] OTHER            -> rpc' = "parse" /\ Log(Ev("parse", 0, rd)) /\ UNCHANGED <<cur, nret>>
  /\ UNCHANGED <<si, rd, buf, ws, we, consumed, calls, faults, retained>>

\* make_contiguous
Compact ==
  /\ rpc = "read" /\ ws > 0
  /\ IF Policy = "code" THEN we = Cap ELSE TRUE
  /\ buf' = [i \in 1..Cap |-> IF i <= we - ws THEN buf[ws + i] ELSE buf[i]]
  /\ ws' = 0 /\ we' = we - ws
  /\ UNCHANGED <<si, rd, rpc, cur, nret, consumed, calls, faults, path, retained>>

OutOfMemory ==
  /\ rpc = "read" /\ we = Cap /\ ws = 0
  /\ rpc' = "oom" /\ Log(Ev("oom", 0, rd))
  /\ UNCHANGED <<si, rd, buf, ws, we, cur, nret, consumed, calls, faults, retained>>

ReadData ==
  /\ rpc = "read" /\ we < Cap /\ rd < Len(Stream)
  /\ \E offered \in (IF Policy = "code" THEN {Cap - we} ELSE 1..(Cap - we)) :
     \E n \in 1..MinI(MinI(offered, ChunkMax), Len(Stream) - rd) :
       /\ buf' = [i \in 1..Cap |-> IF i > we /\ i <= we + n THEN Stream[rd + i - we] ELSE buf[i]]
       /\ we' = we + n /\ rd' = rd + n
       /\ Log(Ev("read", n, rd))
  /\ rpc' = "validate" /\ calls' = calls + 1
  /\ UNCHANGED <<si, ws, cur, nret, consumed, faults, retained>>

ReadEof ==         \* the pipe reports end of stream: read() = 0 => Closed
  /\ rpc = "read" /\ we < Cap /\ rd = Len(Stream)
  /\ rpc' = "closed" /\ calls' = calls + 1
  /\ Log(Ev("closed", 0, rd))
  /\ UNCHANGED <<si, rd, buf, ws, we, cur, nret, consumed, faults, retained>>

ReadEarlyEof ==    \* the pipe reports end of stream although the sender has not sent everything (a fault): Closed
  /\ rpc = "read" /\ we < Cap /\ rd < Len(Stream) /\ faults < FaultMax
  /\ rpc' = "closed" /\ faults' = faults + 1 /\ calls' = calls + 1
  /\ Log(Ev("eof", 0, rd))
  /\ UNCHANGED <<si, rd, buf, ws, we, cur, nret, consumed, retained>>

ReadErr ==         \* a transient read error: recv returns Err(Read(e)); the receiver may be used again
  /\ rpc = "read" /\ we < Cap /\ faults < FaultMax
  /\ rpc' = "idle" /\ faults' = faults + 1 /\ calls' = calls + 1
  /\ \E ek \in ErrKinds : Log(EvK("rerr", 0, rd, ek))
  /\ UNCHANGED <<si, rd, buf, ws, we, cur, nret, consumed, retained>>

GuardDrop ==       \* RecvGuard::drop: skip(size())
  /\ rpc = "guard"
  /\ cur <= we - ws                     \* GuardInside says this is never false
  /\ consumed' = consumed + cur
  \* (whether an emptied window is moved back to the start of the buffer is a policy: the code does it)
  /\ IF ws + cur = we /\ Policy = "code" THEN ws' = 0 /\ we' = 0
     ELSE IF ws + cur = we THEN \/ ws' = 0 /\ we' = 0
                                \/ ws' = ws + cur /\ we' = we
     ELSE ws' = ws + cur /\ we' = we
  /\ rpc' = "idle"
  /\ UNCHANGED <<si, rd, buf, cur, nret, calls, faults, path, retained>>

GuardRetain ==     \* RecvGuard::retain (or a leaked guard): nothing is skipped, the next recv hands out the same message again
  /\ rpc = "guard" /\ retained < RetainMax
  /\ retained' = retained + 1 /\ nret' = nret - 1
  /\ rpc' = "idle" /\ Log(Ev("retain", cur, rd))
  /\ UNCHANGED <<si, rd, buf, ws, we, cur, consumed, calls, faults>>

Next == RecvBegin \/ DoValidate \/ Compact \/ OutOfMemory \/ ReadData \/ ReadEof \/ ReadEarlyEof \/ ReadErr \/ GuardDrop \/ GuardRetain
Spec == Init /\ [][Next]_vars /\ WF_vars(Next)

\* the same, printing the path of every generated transition (the script + returns that lead to it)
NextP == Next /\ (Len(path') # Len(path) => PrintT(<<"CASE", ToJson([k |-> "iorecv", id |-> "", si |-> si, path |-> path', final |-> rpc'])>>))
SpecP == Init /\ [][NextP]_vars

(***************************************************************************)
(* Properties.                                                             *)
(***************************************************************************)
Terminal == rpc \in {"closed", "parse", "oom"}
WindowInv == 0 <= ws /\ ws <= we /\ we <= Cap /\ ws % Align(MsgT) = 0
\* the window holds exactly the received and not yet consumed bytes, in order: nothing lost, duplicated or reordered
HeadInv == Occupied = SubSeq(Stream, consumed + 1, rd)
\* dropping the guard never consumes more than was received
GuardInside == rpc = "guard" => cur <= we - ws
BoundedCalls == calls <= Cap + 2
\* for a stream made of whole valid messages: they are delivered in order, nothing else, then Closed
ValidStream == Streams[si].nmsg >= 0
DeliveredInOrder == ValidStream => /\ nret <= Streams[si].nmsg
                                   /\ rpc \notin {"parse", "oom"}
                                   /\ (rpc = "guard" => LET r == Validate(MsgT, Occupied, 0) IN r.ok)
ClosedMeansAll == (ValidStream /\ rpc = "closed" /\ rd = Len(Stream)) => nret = Streams[si].nmsg /\ we = ws
\* a complete malformed head gives "parse", never "read more": by construction of DoValidate, stated as an invariant
ParseNotStarve == rpc = "read" => Validate(MsgT, Occupied, 0).cls = "size"
Terminates == <>Terminal
=============================================================================
