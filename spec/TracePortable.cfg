SPECIFICATION Spec
INVARIANT Track
POSTCONDITION Accepted
CHECK_DEADLOCK FALSE
