------------------------------ MODULE MCCodec ------------------------------
(***************************************************************************)
(* Model: the byte-level theorems of the format over the catalog, and one  *)
(* replayable case per explored state.                                      *)
(*                                                                         *)
(* The state machine enumerates inputs of validate / from_bytes:           *)
(*   base   a valid image: Enc of a representative tree in an L-byte slice,*)
(*          undetermined bytes filled with g                               *)
(*   cut    the first k bytes of a base image (message prefixes, C06)      *)
(*   ext    the message followed by further bytes (C06)                    *)
(*   sub    one header field (length, offset slot, tag, Bool, UTF-8 byte)  *)
(*          of a base image replaced by a boundary value (C02, C19)        *)
(*   mis    a base image placed at a misaligned address                    *)
(*   raw    all byte strings over a boundary alphabet up to MaxRaw bytes   *)
(* Every state carries the reference answer (Validate) and, where they     *)
(* apply, the expectations of C06 and C19.                                 *)
(***************************************************************************)
EXTENDS Catalog, FlatValues, Json

CONSTANTS Alphabet, MaxRaw, TypeIds, RawIds, FillSet, LSteps

VARIABLES ci, L, v, g, addr, bs, mut
vars == <<ci, L, v, g, addr, bs, mut>>

T == Catalog[ci].t
NoMut == [kind |-> "base", pos |-> 0, w |-> 0, fk |-> "", val |-> <<>>]
NoTree == [none |-> TRUE]

\* slice lengths on which a type is exercised
\* (multiples of the alignment, and lengths that are not: one more, half way, one less than the next multiple)
LSet(t) == IF IsSized(t) THEN {StaticSize(t)}
           ELSE {MinSize(t) + j * Align(t) : j \in 0..LSteps}
                \cup {MinSize(t) + LSteps * Align(t) + k : k \in {1, Align(t) \div 2, Align(t) - 1} \ {0}}
                \cup {RoomyMin(t), RoomyMin(t) + Align(t) + 1}
                \* a FlexVec also on a slice that holds two sealed items and the terminator (cuts inside a later offset slot,
                \* at an item boundary; slack between items)
                \cup (IF t.k = "flex" THEN {MinSize(t) + 2 * (FlexOffsetSize(t) + CeilMul(MinSize(t.elem[1]), Align(t)))} ELSE {})

(***************************************************************************)
(* Header fields of an image.                                              *)
(***************************************************************************)
RECURSIVE Hdr(_, _, _, _)
HdrFields(fs, vals, total, base) ==
  LET offs == FieldOffs(fs) IN UNION { Hdr(vals[i], fs[i], total - offs[i], base + offs[i]) : i \in DOMAIN fs }
HF(pos, w, fk, bigend) == [pos |-> pos, w |-> w, fk |-> fk, be |-> bigend, cap |-> -1]
HFC(pos, w, fk, bigend, cap) == [pos |-> pos, w |-> w, fk |-> fk, be |-> bigend, cap |-> cap]
Hdr(x, t, l, base) ==
  CASE t.k \in {"prim", "pint", "pfloat", "unit"} -> {}
    [] t.k = "bool" -> {HF(base, 1, "bool", FALSE)}
    [] t.k = "arr"  -> LET es == StaticSize(t.elem[1]) IN UNION { Hdr(x[i], t.elem[1], es, base + (i - 1) * es) : i \in DOMAIN x }
    [] t.k = "vec"  -> LET es == StaticSize(t.elem[1])  d == VecDataOffset(t) IN
                       {HFC(base, t.lt[1].size, "len", t.lt[1].be, x.cap)}
                       \cup UNION { Hdr(x.items[i], t.elem[1], es, base + d + (i - 1) * es) : i \in DOMAIN x.items }
    [] t.k = "str"  -> {HFC(base, t.lt[1].size, "len", t.lt[1].be, x.cap)}
                       \cup { HF(base + StrDataOffset(t) + i - 1, 1, "utf8", FALSE) : i \in DOMAIN x.bytes }
    [] t.k = "flex" ->
         LET os == FlexOffsetSize(t)  V == FlexView(t, l)  n == Len(x.items)
             term == IF n = 0 \/ x.items[n].reg # 0
                       THEN {HF(base + (IF n = 0 THEN 0 ELSE FlexItemPos(x, n) + x.items[n].reg), t.lt[1].size, "off", t.lt[1].be)}
                       ELSE {}
         IN term \cup UNION { LET p == FlexItemPos(x, i)  it == x.items[i]
                                  room == IF it.reg = 0 THEN V - p - os ELSE it.reg - os
                              IN {HF(base + p, t.lt[1].size, "off", t.lt[1].be)} \cup Hdr(it.v, t.elem[1], room, base + p + os)
                              : i \in DOMAIN x.items }
    [] t.k = "struct" -> HdrFields(t.fields, x, IF t.sized THEN StaticSize(t) ELSE FloorMul(l, Align(t)), base)
    [] t.k = "enum" ->
         {HF(base, t.size, "tag", FALSE)}
         \cup (IF IsCLike(t) THEN {}
               ELSE HdrFields(t.vars[x.tag], x.fs, IF t.sized THEN StaticSize(t) - EnumDataOffset(t) ELSE EnumDataLen(t, l),
                              base + EnumDataOffset(t)))

\* replacement values for a header field, as byte sequences in the field's byte order
NumSubs == {0, 1, 2, 3, 5, 8, 254}
SubVals(h, cur) ==
  CASE h.fk \in {"len", "off", "tag"} ->
         LET enc(n) == IF h.be THEN Rev(DigitsLE(n, h.w)) ELSE DigitsLE(n, h.w)
             c == NumLE(IF h.be THEN Rev(cur) ELSE cur)
             capv == IF h.cap >= 0 /\ h.cap < BIG - 4 THEN {h.cap, h.cap + 1, h.cap + 2, h.cap + 3} ELSE {}      \* just at / beyond the capacity
         IN ({enc(n) : n \in NumSubs \cup capv \cup {c + 1} \cup (IF c > 0 /\ c < BIG THEN {c - 1} ELSE {})} \cup {Rep(h.w, 255)}) \ {cur}
    [] h.fk = "bool" -> {<<2>>, <<128>>, <<255>>}
    [] h.fk = "utf8" -> {<<128>>, <<195>>, <<255>>, <<65>>} \ {cur}

Suffixes == { <<0>>, <<255>>, <<1, 0, 0, 0>>, <<2, 1, 1, 0, 0, 0, 0, 0>>, <<255, 255, 255, 255, 255, 255, 255, 255, 255>> }

Base == mut.kind = "base"

\* Initial states are seeds (one per type); the valid images are generated by the first step, so that
\* TLC's workers share the evaluation of the theorems on them.
Init ==
  /\ ci \in {i \in DOMAIN Catalog : Catalog[i].id \in TypeIds \cup RawIds}
  /\ L = 0 /\ v = NoTree /\ g = 0 /\ addr = 0 /\ bs = <<>>
  /\ mut = [NoMut EXCEPT !.kind = "seed"]

Seed ==
  /\ mut.kind = "seed"
  /\ \/ /\ Catalog[ci].id \in TypeIds
        /\ L' \in LSet(T)
        /\ LET tv == TV(T, L') IN \E vi \in 1..Len(tv) : v' = tv[vi]
        /\ g' \in FillSet
        /\ bs' = Fill(Enc(v', T, L'), g')
        /\ mut' = NoMut
     \/ /\ Catalog[ci].id \in RawIds
        /\ L' = 0 /\ v' = NoTree /\ g' = 0 /\ bs' = <<>>
        /\ mut' = [NoMut EXCEPT !.kind = "raw"]
  /\ UNCHANGED <<ci, addr>>

Cut == /\ Base
       /\ \E k \in 0..(Len(bs) - 1) :
            /\ bs' = SubSeq(bs, 1, k)
            /\ mut' = [NoMut EXCEPT !.kind = "cut", !.pos = k]
       /\ UNCHANGED <<ci, L, v, g, addr>>
Ext == /\ Base
       /\ \E s \in Suffixes :
            /\ bs' = SubSeq(bs, 1, Size(v, T)) \o s
            /\ mut' = [NoMut EXCEPT !.kind = "ext", !.pos = Size(v, T), !.val = s]
       /\ UNCHANGED <<ci, L, v, g, addr>>
Sub == /\ Base
       /\ \E h \in Hdr(v, T, L, 0) :
            LET cur == SubSeq(bs, h.pos + 1, h.pos + h.w) IN
            \E nv \in SubVals(h, cur) :
              /\ bs' = Overlay(bs, h.pos, nv)
              /\ mut' = [kind |-> "sub", pos |-> h.pos, w |-> h.w, fk |-> h.fk, val |-> nv]
       /\ UNCHANGED <<ci, L, v, g, addr>>
Mis == /\ Base /\ g = 0
       /\ \E a \in 1..(Align(T) - 1) :
            /\ addr' = a
            /\ mut' = [NoMut EXCEPT !.kind = "mis", !.pos = a]
       /\ UNCHANGED <<ci, L, v, g, bs>>
Raw == /\ mut.kind = "raw"
       /\ Len(bs) < MaxRaw
       /\ \E b \in Alphabet : bs' = Append(bs, b)
       /\ UNCHANGED <<ci, L, v, g, addr, mut>>

Next == Seed \/ Cut \/ Ext \/ Sub \/ Mis \/ Raw
Spec == Init /\ [][Next]_vars

(***************************************************************************)
(* Theorems.                                                               *)
(***************************************************************************)
R == Validate(T, bs, addr)
HasTree == mut.kind \notin {"raw", "seed"}

\* index of the last byte of the message that the format determines (everything after it is trailing padding)
LastData(img) == LET S == {i \in DOMAIN img : img[i] # ANY} IN IF S = {} THEN 0 ELSE CHOOSE i \in S : \A j \in S : j <= i

ThRoundTrip == Base => RoundTrip(v, T, L)
ThSize      == Base => SizeSufficient(v, T, L) /\ LenLeCap(v, T)
ThCodecTotal == R.ok \/ R.cls \in {"size", "align", "content"}

\* C06: a proper prefix of a message is "incomplete" or (only trailing padding missing) the same message;
\* the message followed by anything is the same message
ThFraming ==
  /\ (mut.kind = "cut" /\ mut.pos < Size(v, T)) =>
        IF R.ok THEN SameContent(R.val, v, T) /\ mut.pos >= LastData(SubSeq(Enc(v, T, L), 1, Size(v, T)))
        ELSE R.cls = "size"
  /\ ((mut.kind = "cut" /\ mut.pos >= Size(v, T)) \/ mut.kind = "ext") =>
        R.ok /\ SameContent(R.val, v, T) /\ Size(R.val, T) = Size(v, T)
ThMisaligned == mut.kind = "mis" => ~R.ok /\ R.cls = "align"
\* a decoded value is consistent: len <= cap everywhere, and its own bytes decode to itself
ThConsistent == R.ok => /\ LenLeCap(R.val, T)
                        /\ Size(R.val, T) <= ViewLen(T, Len(bs))
                        /\ LET r2 == Validate(T, SubSeq(bs, 1, ViewLen(T, Len(bs))), 0)
                           IN r2.ok /\ SameContent(r2.val, R.val, T)

(***************************************************************************)
(* Emission.                                                               *)
(***************************************************************************)
\* C19 applies when exactly one constrained byte was corrupted and the reference reports a content
\* error at that field; the accept set is lo..hi
C19Applies == mut.kind = "sub" /\ mut.fk \in {"bool", "tag", "utf8"} /\ ~R.ok /\ R.cls = "content"
              /\ R.pos <= mut.pos + mut.w - 1 /\ R.pos + MaxI(R.plen, 1) - 1 >= mut.pos - 3
C19Rec == IF C19Applies THEN [lo |-> R.pos, hi |-> MaxI(mut.pos + mut.w - 1, R.pos + R.plen - 1)] ELSE [lo |-> -1, hi |-> -1]

C06Rec == IF HasTree /\ mut.kind \in {"cut", "ext", "base"}
            THEN [mode |-> IF mut.kind = "cut" /\ mut.pos < Size(v, T) THEN "prefix" ELSE "same",
                  size |-> Size(v, T), need |-> LastData(SubSeq(Enc(v, T, L), 1, Size(v, T)))]
            ELSE [mode |-> "", size |-> 0, need |-> 0]

Case == [k |-> "dec", id |-> Catalog[ci].id, addr |-> addr, bs |-> bs, mut |-> mut,
         exp |-> [ok |-> R.ok, cls |-> R.cls, kind |-> R.kind, pos |-> R.pos,
                  val |-> IF R.ok THEN R.val ELSE <<>>,
                  size |-> IF R.ok THEN Size(R.val, T) ELSE 0,
                  view |-> IF R.ok THEN ViewLen(T, Len(bs)) ELSE 0],
         ref |-> IF HasTree THEN [val |-> v] ELSE [val |-> <<>>],
         c06 |-> C06Rec, c19 |-> C19Rec]
Emit == mut.kind # "seed" => PrintT(<<"CASE", ToJson(Case)>>)

\* all theorems and the emission in one invariant, so that the reference answer is evaluated once per state
All ==
  mut.kind # "seed" =>
    LET r == R
        sz == IF HasTree THEN Size(v, T) ELSE 0
        msgimg == IF HasTree THEN SubSeq(Enc(v, T, L), 1, sz) ELSE <<>>
        need == LastData(msgimg)
    IN
    /\ (Base => RoundTrip(v, T, L) /\ SizeSufficient(v, T, L) /\ LenLeCap(v, T))
    /\ (r.ok \/ r.cls \in {"size", "align", "content"})
    /\ ((mut.kind = "cut" /\ mut.pos < sz) =>
          IF r.ok THEN SameContent(r.val, v, T) /\ mut.pos >= need ELSE r.cls = "size")
    /\ (((mut.kind = "cut" /\ mut.pos >= sz) \/ mut.kind = "ext") =>
          r.ok /\ SameContent(r.val, v, T) /\ Size(r.val, T) = sz)
    /\ (mut.kind = "mis" => ~r.ok /\ r.cls = "align")
    /\ (r.ok => /\ LenLeCap(r.val, T)
                /\ Size(r.val, T) <= ViewLen(T, Len(bs))
                /\ LET r2 == Validate(T, SubSeq(bs, 1, ViewLen(T, Len(bs))), 0) IN r2.ok /\ SameContent(r2.val, r.val, T))
    /\ LET c19on == mut.kind = "sub" /\ mut.fk \in {"bool", "tag", "utf8"} /\ ~r.ok /\ r.cls = "content"
                     /\ r.pos <= mut.pos + mut.w - 1 /\ r.pos + MaxI(r.plen, 1) - 1 >= mut.pos - 3
       IN PrintT(<<"CASE", ToJson(
            [k |-> "dec", id |-> Catalog[ci].id, addr |-> addr, bs |-> bs, mut |-> mut,
             exp |-> [ok |-> r.ok, cls |-> r.cls, kind |-> r.kind, pos |-> r.pos,
                      val |-> IF r.ok THEN r.val ELSE <<>>,
                      size |-> IF r.ok THEN Size(r.val, T) ELSE 0,
                      view |-> IF r.ok THEN ViewLen(T, Len(bs)) ELSE 0],
             ref |-> IF HasTree THEN [val |-> v] ELSE [val |-> <<>>],
             c06 |-> IF HasTree /\ mut.kind \in {"cut", "ext", "base"}
                       THEN [mode |-> IF mut.kind = "cut" /\ mut.pos < sz THEN "prefix" ELSE "same", size |-> sz, need |-> need]
                       ELSE [mode |-> "", size |-> 0, need |-> 0],
             c19 |-> IF c19on THEN [lo |-> r.pos, hi |-> MaxI(mut.pos + mut.w - 1, r.pos + r.plen - 1)] ELSE [lo |-> -1, hi |-> -1]])>>)

\* ---- constant definitions for the configurations -------------------------
AllIds == CatIds
RECURSIVE HasConstraint(_)
HasConstraint(t) ==
  CASE t.k \in {"bool", "str"} -> TRUE
    [] t.k \in {"prim", "pint", "pfloat", "unit"} -> FALSE
    [] t.k \in {"arr", "vec", "flex"} -> t.k # "arr" \/ HasConstraint(t.elem[1])
    [] t.k = "struct" -> ~t.sized \/ \E i \in DOMAIN t.fields : HasConstraint(t.fields[i])
    [] t.k = "enum" -> TRUE
\* raw byte strings are interesting for types whose validation can fail on content or header fields
RawAll == {Core[i].id : i \in {i \in DOMAIN Core : HasConstraint(Core[i].t)}}
SweepAll == SweepIds
NoIds == {}
=============================================================================
