SPECIFICATION Spec
CONSTANTS
  NV = 2
  MaxLen = 2
  MaxItems = 2
  AssignMax = 4
  ArgVals = 1
  TypeIds = {"X_vu8le_le", "US6", "UE9", "V_lei32_leu16", "S_leu16"}
  LMults = {0, 1, 2, 3, 5, 8}
  BigInit = FALSE
  FollowUps = FALSE
INVARIANTS InvRoundTrip InvSize InvLenCap InvFlexShape
CHECK_DEADLOCK FALSE
