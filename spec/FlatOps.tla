------------------------------ MODULE FlatOps ------------------------------
(***************************************************************************)
(* The effect of every API operation on a flat value living in a buffer.   *)
(*                                                                         *)
(*   Build(c, t, l)      emplacing content c into an l-byte region         *)
(*                       (new_in_place / default_in_place / assign /       *)
(*                       FlexVec::push with the library's emplacers)       *)
(*   Remap(v, t, l)      the tree v seen through a region of l bytes       *)
(*   Get / Put           navigation by path (field, payload field, vector  *)
(*                       element, FlexVec item indices)                    *)
(*   OpsAt, Apply        the operations enabled on a node and their effect *)
(*                                                                         *)
(* Every failure branch returns the unchanged tree (C13); the steps are in *)
(* the order the code performs them so that partial failure is defined.    *)
(*                                                                         *)
(* Code this mirrors: stavec GenericVec/GenericString as exposed by        *)
(* FlatVec/FlatString (containers/src/{vec,string}.rs), FlexVec::{push,    *)
(* pop, truncate, clear}, the emplacers of containers/src/*.rs and         *)
(* macros/src/items/init.rs, FlatUnsized::{new,assign}_in_place.           *)
(***************************************************************************)
EXTENDS FlatValues

BOk(tr)    == [ok |-> TRUE, tree |-> tr, stage |-> ""]
BFail(st)  == [ok |-> FALSE, tree |-> <<>>, stage |-> st]

RECURSIVE Remap(_, _, _), Build(_, _, _), DefaultContent(_)

\* ---- the same value seen through a region of l bytes (l large enough) -------------------------
RemapFields(fs, vals, total) ==
  LET n == Len(fs) IN
  IF n = 0 \/ IsSized(fs[n]) THEN vals
  ELSE [vals EXCEPT ![n] = Remap(vals[n], fs[n], total - FieldOffs(fs)[n])]
Remap(v, t, l) ==
  CASE IsSized(t) -> v
    [] t.k = "vec"  -> [v EXCEPT !.cap = VecCap(t, l)]
    [] t.k = "str"  -> [v EXCEPT !.cap = StrCap(t, l)]
    [] t.k = "flex" ->
         LET n == Len(v.items) IN
         IF n = 0 \/ v.items[n].reg # 0 THEN v
         ELSE [v EXCEPT !.items[n].v = Remap(@, t.elem[1], FlexView(t, l) - FlexItemPos(v, n) - FlexOffsetSize(t))]
    [] t.k = "struct" -> RemapFields(t.fields, v, FloorMul(l, Align(t)))
    [] t.k = "enum" -> [v EXCEPT !.fs = RemapFields(t.vars[v.tag], v.fs, EnumDataLen(t, l))]

\* ---- emplacement --------------------------------------------------------------------------------
BuildFields(fs, cs, total) ==      \* fields in declaration order; a failing tail fails the whole
  LET n == Len(fs) IN
  IF n = 0 \/ IsSized(fs[n]) THEN BOk(cs)
  ELSE LET b == Build(cs[n], fs[n], total - FieldOffs(fs)[n])
       IN IF b.ok THEN BOk([cs EXCEPT ![n] = b.tree]) ELSE BFail(IF b.stage = "room" THEN "inner-room" ELSE b.stage)

BuildFlex(cs, t, l) ==             \* flex::FromIterator: every item gets the rest, is sealed, the last one re-marked
  LET os == FlexOffsetSize(t)  a == Align(t)  V == FlexView(t, l)  e == t.elem[1]
      RECURSIVE go(_, _, _)
      go(i, p, acc) ==
        IF i > Len(cs) THEN
             (IF acc = <<>> THEN BOk([items |-> <<>>])
              ELSE LET n == Len(acc)  pl == p - acc[n].reg IN
                   BOk([items |-> [acc EXCEPT ![n] = [reg |-> 0, v |-> Remap(acc[n].v, e, V - pl - os)]]]))
        ELSE IF V - p < os THEN BFail("fill")
        ELSE LET b == Build(cs[i], e, V - p - os) IN
             IF ~b.ok THEN BFail("fill")
             ELSE LET sealed == os + CeilMul(Size(b.tree, e), a) IN
                  IF sealed >= LMaxSat(t.lt[1]) THEN BFail("fill")
                  ELSE go(i + 1, p + sealed, Append(acc, [reg |-> sealed, v |-> Remap(b.tree, e, sealed - os)]))
  IN go(1, 0, <<>>)

Build(c, t, l) ==
  IF l < MinSize(t) THEN BFail("room")
  ELSE CASE IsSized(t) -> BOk(c)
    [] t.k = "vec"  -> LET cap == VecCap(t, l) IN IF Len(c) > cap THEN BFail("fill") ELSE BOk([cap |-> cap, items |-> c])
    [] t.k = "str"  -> LET cap == StrCap(t, l) IN IF Len(c) > cap THEN BFail("fill") ELSE BOk([cap |-> cap, bytes |-> c])
    [] t.k = "flex" -> BuildFlex(c, t, l)
    [] t.k = "struct" -> BuildFields(t.fields, c, FloorMul(l, Align(t)))
    [] t.k = "enum" ->
         LET room == EnumDataLen(t, l) IN
         IF room < FieldsEnd(t.vars[c.tag]) THEN BFail("room")       \* variant room check, then tag, then fields
         ELSE LET b == BuildFields(t.vars[c.tag], c.fs, room)
              IN IF b.ok THEN BOk([tag |-> c.tag, fs |-> b.tree]) ELSE b

DefaultFields(fs) == [i \in 1..Len(fs) |-> DefaultContent(fs[i])]
DefaultContent(t) ==
  CASE t.k \in {"prim", "pint", "pfloat"} -> Rep(t.size, 0)
    [] t.k = "unit" -> <<>>
    [] t.k = "bool" -> 0
    [] t.k = "arr"  -> [i \in 1..t.n |-> DefaultContent(t.elem[1])]
    [] t.k \in {"vec", "str", "flex"} -> <<>>
    [] t.k = "struct" -> DefaultFields(t.fields)
    [] t.k = "enum" -> [tag |-> t.dflt, fs |-> <<>>]

RECURSIVE HasDefault(_)
HasDefault(t) ==
  CASE t.k \in {"prim", "pint", "pfloat", "unit", "bool", "vec", "str", "flex"} -> TRUE
    [] t.k = "arr" -> FALSE          \* Default for [T; N] is not generic over N: not offered through FlatDefault here
    [] t.k = "struct" -> t.dflt > 0
    [] t.k = "enum" -> t.dflt > 0

\* ---- navigation -----------------------------------------------------------------------------------
ChildRec(ct, cl, coff, cv) == [t |-> ct, l |-> cl, off |-> coff, v |-> cv]
FieldChildren(fs, vals, total, base) ==
  LET offs == FieldOffs(fs) IN [i \in 1..Len(fs) |-> ChildRec(fs[i], total - offs[i], base + offs[i], vals[i])]
Children(x, t, l) ==
  CASE t.k = "arr"  -> LET es == StaticSize(t.elem[1]) IN [i \in 1..t.n |-> ChildRec(t.elem[1], es, (i - 1) * es, x[i])]
    [] t.k = "vec"  -> LET es == StaticSize(t.elem[1]) IN
                       [i \in 1..Len(x.items) |-> ChildRec(t.elem[1], es, VecDataOffset(t) + (i - 1) * es, x.items[i])]
    [] t.k = "flex" -> LET os == FlexOffsetSize(t)  V == FlexView(t, l) IN
                       [i \in 1..Len(x.items) |->
                          LET p == FlexItemPos(x, i)  it == x.items[i] IN
                          ChildRec(t.elem[1], IF it.reg = 0 THEN V - p - os ELSE it.reg - os, p + os, it.v)]
    [] t.k = "struct" -> FieldChildren(t.fields, x, IF t.sized THEN StaticSize(t) ELSE FloorMul(l, Align(t)), 0)
    [] t.k = "enum" -> IF IsCLike(t) THEN <<>>
                       ELSE FieldChildren(t.vars[x.tag], x.fs,
                                          IF t.sized THEN StaticSize(t) - EnumDataOffset(t) ELSE EnumDataLen(t, l), EnumDataOffset(t))
    [] OTHER -> <<>>

RECURSIVE Get(_, _, _, _, _), Put(_, _, _, _, _)
\* the node addressed by path (1-based indices): [t, l, off (from the start of the value), v]
Get(x, t, l, path, base) ==
  IF path = <<>> THEN ChildRec(t, l, base, x)
  ELSE LET c == Children(x, t, l)[path[1]] IN Get(c.v, c.t, c.l, Tail(path), base + c.off)
Put(x, t, l, path, nv) ==
  IF path = <<>> THEN nv
  ELSE LET i == path[1]  c == Children(x, t, l)[i]  sub == Put(c.v, c.t, c.l, Tail(path), nv) IN
       CASE t.k \in {"arr", "struct"} -> [x EXCEPT ![i] = sub]
         [] t.k = "vec"  -> [x EXCEPT !.items[i] = sub]
         [] t.k = "flex" -> [x EXCEPT !.items[i].v = sub]
         [] t.k = "enum" -> [x EXCEPT !.fs[i] = sub]

\* all container / composite nodes of a tree, as paths (depth first)
RECURSIVE PathsFrom(_, _, _, _)
PathsFrom(x, t, l, prefix) ==
  LET cs == IF t.k \in {"vec", "arr"} THEN <<>> ELSE Children(x, t, l) IN      \* elements are reached through the vector's own operations
  <<prefix>> \o Flatten([i \in 1..Len(cs) |-> PathsFrom(cs[i].v, cs[i].t, cs[i].l, Append(prefix, i))])
Paths(x, t, l) == PathsFrom(x, t, l, <<>>)

\* number of bytes a node owns inside its parent (what a mutation of it may touch)
NodeBytes(nt, nl) == IF IsSized(nt) THEN StaticSize(nt) ELSE nl

\* ---- operations ----------------------------------------------------------------------------------
Op(name, n, val) == [op |-> name, n |-> n, v |-> val]
Res(ok, node, ret, anyvalid) == [ok |-> ok, node |-> node, ret |-> ret, anyvalid |-> anyvalid]
NoRet == <<>>

CONSTANTS ArgVals,     \* how many representative argument values per operation (1..2)
          AssignMax    \* at most this many replacement contents per assign_in_place target / pushed item

ElemArgs(e) == LET sv == SV(e) IN [j \in 1..MinI(ArgVals, Len(sv)) |-> Pick(sv, j + 1)]
Chars == << <<97>>, <<195, 169>>, <<226, 130, 172>> >>
StrArgs == << <<>>, <<97>>, <<97, 98>>, <<226, 130, 172>>, <<97, 98, 99, 100, 101>> >>

\* item contents offered to FlexVec::push / assign: contents of the trees that fit a generous region
ItemContents(e) ==
  IF IsSized(e) THEN ElemArgs(e)
  ELSE LET tv == TV(e, RoomyMin(e) + 4 * Align(e) + 4)
           n == Len(tv)
           \* per variant of an enum (per type otherwise): the first and the last tree of the list -- the smallest content
           \* with the first scalar values and the largest with the last ones -- plus, up to AssignMax, an even spread
           grp(i) == IF e.k = "enum" THEN tv[i].tag ELSE 0
           firsts == {i \in 1..n : \A j \in 1..(i - 1) : grp(j) # grp(i)}
           lasts  == {i \in 1..n : \A j \in (i + 1)..n : grp(j) # grp(i)}
           m == MinI(n, AssignMax)
           spread == {IF m = 1 THEN 1 ELSE 1 + ((j - 1) * (n - 1)) \div (m - 1) : j \in 1..m}
           idx == SetToSeq(firsts \cup lasts \cup spread)
       IN [j \in 1..Len(idx) |-> Content(tv[idx[j]], e)]

\* the same content with its tail container filled beyond what n bytes can hold (a replacement that passes the
\* static room check of its variant / struct and then fails while its tail is being filled)
RECURSIVE OverTail(_, _, _)
OverTail(c, t, n) ==
  CASE t.k = "vec" -> [i \in 1..(n + 1) |-> IF c = <<>> THEN Pick(SV(t.elem[1]), 2) ELSE c[1]]
    [] t.k = "str" -> Rep(n + 1, 97)
    [] t.k = "struct" /\ ~IsSized(t) -> [c EXCEPT ![Len(c)] = OverTail(@, t.fields[Len(t.fields)], n)]
    [] t.k = "enum" /\ ~IsSized(t) /\ c.fs # <<>> /\ ~IsSized(t.vars[c.tag][Len(c.fs)]) ->
         [c EXCEPT !.fs[Len(c.fs)] = OverTail(@, t.vars[c.tag][Len(c.fs)], n)]
    [] OTHER -> c

OpsAt(nv, nt, nl, isRoot) ==
  CASE nt.k = "vec" ->
         LET ea == ElemArgs(nt.elem[1])  len == Len(nv.items)  cap == nv.cap IN
         [j \in 1..Len(ea) |-> Op("push", 0, ea[j])]
         \o << Op("pop", 0, <<>>), Op("clear", 0, <<>>) >>
         \o [k \in 1..3 |-> Op("push_slice", 0, [i \in 1..(k - 1) |-> Pick(ea, i)])]
         \o << Op("push_slice", 0, [i \in 1..(cap - len + 1) |-> ea[1]]) >>
         \o << Op("extend", 0, [i \in 1..2 |-> Pick(ea, i)]), Op("extend", 0, [i \in 1..(cap - len + 1) |-> ea[1]]) >>
         \o [n \in 1..(len + 2) |-> Op("truncate", n - 1, <<>>)]
         \o [n \in 1..len |-> Op("remove", n - 1, <<>>)]
         \o [n \in 1..len |-> Op("swap_remove", n - 1, <<>>)]
         \o [n \in 1..(MinI(cap, MaxLen + 1) + 1) |-> Op("resize", n - 1, ea[1])]
         \o [n \in 1..len |-> Op("set", n - 1, Pick(ea, n))]
    [] nt.k = "str" ->
         [j \in 1..Len(Chars) |-> Op("push", 0, Chars[j])]
         \o [j \in 1..Len(StrArgs) |-> Op("push_str", 0, StrArgs[j])]
         \o << Op("clear", 0, <<>>) >>
    [] nt.k = "flex" ->
         LET ic == ItemContents(nt.elem[1])  len == Len(nv.items) IN
         [j \in 1..Len(ic) |-> Op("push", 0, ic[j])]
         \o (IF HasDefault(nt.elem[1]) THEN << Op("push_default", 0, <<>>) >> ELSE <<>>)
         \o << Op("pop", 0, <<>>), Op("clear", 0, <<>>) >>
         \o [n \in 1..(len + 2) |-> Op("truncate", n - 1, <<>>)]
    [] nt.k \in {"struct", "enum"} /\ ~IsSized(nt) ->
         LET ic == ItemContents(nt) IN
         [j \in 1..Len(ic) |-> Op("assign", 0, ic[j])] \o [j \in 1..Len(ic) |-> Op("assign", 0, OverTail(ic[j], nt, nl))]
    [] IsSized(nt) /\ nt.k # "unit" /\ ~isRoot -> LET ea == ElemArgs(nt) IN [j \in 1..Len(ea) |-> Op("set", 0, ea[j])]
    [] OTHER -> <<>>

SeqRemove(s, i) == [j \in 1..(Len(s) - 1) |-> IF j < i THEN s[j] ELSE s[j + 1]]

FlexSealLast(nv, nt) ==
  LET n == Len(nv.items)  os == FlexOffsetSize(nt) IN
  IF n = 0 \/ nv.items[n].reg # 0 THEN nv
  ELSE LET sealed == os + CeilMul(Size(nv.items[n].v, nt.elem[1]), Align(nt)) IN
       [nv EXCEPT !.items[n] = [reg |-> sealed, v |-> Remap(@.v, nt.elem[1], sealed - os)]]
FlexEnd(nv) == LET n == Len(nv.items) IN IF n = 0 THEN 0 ELSE FlexItemPos(nv, n) + nv.items[n].reg   \* all sealed
FlexKeep(nv, nt, nl, k) ==        \* keep the first k items (0 < k < len): the last kept one becomes the open item
  LET kept == [items |-> [i \in 1..k |-> IF i = k THEN [reg |-> 0, v |-> nv.items[i].v] ELSE nv.items[i]]]
  IN Remap(kept, nt, nl)

ApplyVec(nv, nt, nl, o) ==
  LET len == Len(nv.items)  cap == nv.cap  room == cap - len IN
  CASE o.op = "push" -> IF len < cap THEN Res(TRUE, [nv EXCEPT !.items = Append(@, o.v)], NoRet, FALSE) ELSE Res(FALSE, nv, NoRet, FALSE)
    [] o.op = "pop"  -> IF len > 0 THEN Res(TRUE, [nv EXCEPT !.items = SubSeq(@, 1, len - 1)], <<nv.items[len]>>, FALSE) ELSE Res(FALSE, nv, NoRet, FALSE)
    [] o.op = "clear" -> Res(TRUE, [nv EXCEPT !.items = <<>>], NoRet, FALSE)
    [] o.op = "push_slice" -> IF Len(o.v) <= room THEN Res(TRUE, [nv EXCEPT !.items = @ \o o.v], NoRet, FALSE) ELSE Res(FALSE, nv, NoRet, FALSE)
    [] o.op = "extend" -> Res(TRUE, [nv EXCEPT !.items = @ \o SubSeq(o.v, 1, MinI(Len(o.v), room))], NoRet, FALSE)
    [] o.op = "truncate" -> Res(TRUE, [nv EXCEPT !.items = SubSeq(@, 1, MinI(o.n, len))], NoRet, FALSE)
    [] o.op = "remove" -> Res(TRUE, [nv EXCEPT !.items = SeqRemove(@, o.n + 1)], <<nv.items[o.n + 1]>>, FALSE)
    [] o.op = "swap_remove" ->
         Res(TRUE, [nv EXCEPT !.items = SubSeq([@ EXCEPT ![o.n + 1] = nv.items[len]], 1, len - 1)], <<nv.items[o.n + 1]>>, FALSE)
    [] o.op = "resize" -> Res(TRUE, [nv EXCEPT !.items = IF o.n <= len THEN SubSeq(@, 1, o.n)
                                                         ELSE @ \o [i \in 1..(o.n - len) |-> o.v]], NoRet, FALSE)
    [] o.op = "set" -> Res(TRUE, [nv EXCEPT !.items[o.n + 1] = o.v], NoRet, FALSE)

ApplyStr(nv, nt, nl, o) ==
  LET len == Len(nv.bytes)  room == nv.cap - len IN
  CASE o.op \in {"push", "push_str"} ->
         IF Len(o.v) <= room THEN Res(TRUE, [nv EXCEPT !.bytes = @ \o o.v], NoRet, FALSE) ELSE Res(FALSE, nv, NoRet, FALSE)
    [] o.op = "clear" -> Res(TRUE, [nv EXCEPT !.bytes = <<>>], NoRet, FALSE)

ApplyFlex(nv, nt, nl, o) ==
  LET len == Len(nv.items)  os == FlexOffsetSize(nt)  V == FlexView(nt, nl)  e == nt.elem[1] IN
  CASE o.op \in {"push", "push_default"} ->
         LET c == IF o.op = "push" THEN o.v ELSE DefaultContent(e)
             sealedNv == FlexSealLast(nv, nt)
             used == FlexEnd(sealedNv)
             openLast == len > 0 /\ nv.items[len].reg = 0
         IN IF openLast /\ sealedNv.items[len].reg >= LMaxSat(nt.lt[1]) THEN Res(FALSE, nv, NoRet, FALSE)    \* extent not representable in L
            ELSE IF V - used < os THEN Res(FALSE, nv, NoRet, FALSE)                                         \* no room for a slot
            ELSE LET b == Build(c, e, V - used - os) IN
                 IF ~b.ok THEN Res(FALSE, nv, NoRet, FALSE)                                                 \* item emplacer failed
                 ELSE Res(TRUE, [items |-> Append(sealedNv.items, [reg |-> 0, v |-> b.tree])], NoRet, FALSE)
    [] o.op = "pop" -> IF len = 0 THEN Res(FALSE, nv, NoRet, FALSE)
                       ELSE IF len = 1 THEN Res(TRUE, [items |-> <<>>], NoRet, FALSE)
                       ELSE Res(TRUE, FlexKeep(nv, nt, nl, len - 1), NoRet, FALSE)
    [] o.op = "clear" -> Res(TRUE, [items |-> <<>>], NoRet, FALSE)
    [] o.op = "truncate" -> IF o.n >= len THEN Res(TRUE, nv, NoRet, FALSE)
                            ELSE IF o.n = 0 THEN Res(TRUE, [items |-> <<>>], NoRet, FALSE)
                            ELSE Res(TRUE, FlexKeep(nv, nt, nl, o.n), NoRet, FALSE)

ApplyAt(nv, nt, nl, o) ==
  CASE o.op = "assign" ->
         LET b == Build(o.v, nt, IF IsSized(nt) THEN StaticSize(nt) ELSE ViewLen(nt, nl)) IN
         IF b.ok THEN Res(TRUE, b.tree, NoRet, FALSE)
         ELSE Res(FALSE, nv, NoRet, b.stage # "room")     \* static room check of the target: unchanged; otherwise only "still valid"
    [] nt.k = "vec"  -> ApplyVec(nv, nt, nl, o)
    [] nt.k = "str"  -> ApplyStr(nv, nt, nl, o)
    [] nt.k = "flex" -> ApplyFlex(nv, nt, nl, o)
    [] o.op = "set"  -> Res(TRUE, o.v, NoRet, FALSE)

\* the whole-value effect of operation o at path
Apply(x, t, l, path, o) ==
  LET nd == Get(x, t, l, path, 0)
      r == ApplyAt(nd.v, nd.t, nd.l, o)
  IN [ok |-> r.ok, tree |-> Put(x, t, l, path, r.node), ret |-> r.ret, anyvalid |-> r.anyvalid,
      off |-> nd.off, len |-> NodeBytes(nd.t, nd.l)]

\* post-image mask over an L-byte slice: SAME outside the node being changed, Enc of the result inside
Mask(x2, t, l, off, len) ==
  LET img == Enc(x2, t, l)  total == Len(img) IN
  [i \in 1..total |-> IF i > off /\ i <= off + len THEN img[i] ELSE SAME]
=============================================================================
