------------------------------- MODULE IoAsync -------------------------------
(***************************************************************************)
(* The async Sender / Receiver pair of flatty-io over a bounded in-memory  *)
(* pipe, polled by a single-threaded executor.                             *)
(*   io/src/async_/io.rs    WriteAll::poll (pos persists across polls,     *)
(*                          poll_flush after the last write), poll_read    *)
(*   io/src/async_/recv.rs  Receiver::recv (async fn around poll_read)     *)
(*   io/src/async_/send.rs  Sender::alloc, SendGuard::send                 *)
(* Interleaving is at poll granularity: PollBegin(task) hands the thread   *)
(* to a task, which then takes micro-steps (one per pipe call or window    *)
(* mutation) until a pipe call answers Pending -- genuinely (pipe full /   *)
(* empty) or spuriously (bounded budget) -- or the task completes.         *)
(* Because a spurious Pending can force a yield at any pipe call, every    *)
(* pipe-call-level interleaving of the two tasks is covered.               *)
(***************************************************************************)
EXTENDS FlatOps, Json

CONSTANTS MsgT,
          Msgs,        \* sequence of message byte strings (each cut to size())
          MaxMsgLen, PipeCap, ChunkMax, SpurMax,
          CancelMax,   \* how many times the user may drop a suspended recv future and call recv again
          Record

Cap == 2 * MaxI(MaxMsgLen, MinSize(MsgT))
Stream == Flatten(Msgs)

VARIABLES mi, spos, sphase, sdone,                 \* sender task: message index, WriteAll.pos, "write"/"flush"
          q, closedW,                              \* the pipe: bytes in flight; write half dropped
          buf, ws, we, rpc, cur, nret, consumed,   \* receiver task (as in IoRecv)
          rdone,
          running, spur, cancels,                  \* scheduler: who is inside a poll; spurious Pendings used; recv futures dropped
          path, poll                               \* history (hidden by VIEW): finished polls; events of the poll in progress
vars == <<mi, spos, sphase, sdone, q, closedW, buf, ws, we, rpc, cur, nret, consumed, rdone, running, spur, cancels, path, poll>>
View == <<mi, spos, sphase, sdone, q, closedW, buf, ws, we, rpc, cur, nret, consumed, rdone, running, spur, cancels>>

sendV == <<mi, spos, sphase, sdone>>
recvV == <<buf, ws, we, rpc, cur, nret, consumed, rdone>>

Occupied == SubSeq(buf, ws + 1, we)
Sent == LET RECURSIVE go(_) go(i) == IF i >= mi THEN 0 ELSE Len(Msgs[i]) + go(i + 1) IN go(1) + spos     \* bytes accepted by the pipe
Rd == Sent - Len(q)                                                                                     \* bytes the receiver has read

Ev(e, n) == [e |-> e, n |-> n]
LogEv(ev) == poll' = IF Record THEN Append(poll, ev) ELSE poll
EndPoll(task, res) == /\ running' = "none"
                      /\ path' = IF Record THEN Append(path, [task |-> task, res |-> res, evs |-> poll']) ELSE path

Init ==
  /\ mi = 1 /\ spos = 0 /\ sphase = "write" /\ sdone = FALSE
  /\ q = <<>> /\ closedW = FALSE
  /\ buf = Rep(Cap, 0) /\ ws = 0 /\ we = 0 /\ rpc = "validate" /\ cur = 0 /\ nret = 0 /\ consumed = 0 /\ rdone = FALSE
  /\ running = "none" /\ spur = 0 /\ cancels = 0 /\ path = <<>> /\ poll = <<>>

PollBegin(task) ==
  /\ running = "none"
  /\ IF task = "S" THEN ~sdone ELSE ~rdone
  /\ running' = task /\ poll' = <<>>
  /\ UNCHANGED <<sendV, q, closedW, recvV, spur, path, cancels>>

\* ---- sender task ---------------------------------------------------------------------------------
SWrite ==
  /\ running = "S" /\ sphase = "write" /\ Len(q) < PipeCap
  /\ \E k \in 1..MinI(MinI(PipeCap - Len(q), Len(Msgs[mi]) - spos), ChunkMax) :
       /\ q' = q \o SubSeq(Msgs[mi], spos + 1, spos + k)
       /\ spos' = spos + k
       /\ sphase' = IF spos + k = Len(Msgs[mi]) THEN "flush" ELSE "write"
       /\ LogEv(Ev("w", k))
  /\ UNCHANGED <<mi, sdone, closedW, recvV, running, spur, path, cancels>>

SPendingFull ==          \* poll_write answers Pending: the pipe is full
  /\ running = "S" /\ sphase = "write" /\ Len(q) = PipeCap
  /\ LogEv(Ev("wfull", 0)) /\ EndPoll("S", "pending")
  /\ UNCHANGED <<sendV, q, closedW, recvV, spur, cancels>>

SSpurious ==             \* poll_write / poll_flush answers Pending although it could make progress
  /\ running = "S" /\ spur < SpurMax
  /\ (sphase = "flush" \/ Len(q) < PipeCap)
  /\ spur' = spur + 1
  /\ LogEv(Ev(IF sphase = "flush" THEN "fpend" ELSE "wpend", 0)) /\ EndPoll("S", "pending")
  /\ UNCHANGED <<sendV, q, closedW, recvV, cancels>>

SFlush ==                \* poll_flush Ready(Ok): the send completes; the task goes on with the next message
  /\ running = "S" /\ sphase = "flush"
  /\ LogEv(Ev("flush", mi))
  /\ IF mi = Len(Msgs)
       THEN /\ mi' = mi + 1 /\ spos' = 0 /\ sphase' = "write" /\ sdone' = TRUE /\ closedW' = TRUE
            /\ EndPoll("S", "ready")
            /\ UNCHANGED <<q, recvV, spur, cancels>>
       ELSE /\ mi' = mi + 1 /\ spos' = 0 /\ sphase' = "write"
            /\ UNCHANGED <<sdone, closedW, q, recvV, running, spur, path, cancels>>

\* ---- receiver task -------------------------------------------------------------------------------
RValidate ==
  /\ running = "R" /\ rpc = "validate"
  /\ LET r == Validate(MsgT, Occupied, 0) IN
       CASE r.ok           -> rpc' = "guard" /\ cur' = Size(r.val, MsgT) /\ nret' = nret + 1 /\ LogEv(Ev("msg", cur'))
         [] r.cls = "size" -> rpc' = "read" /\ UNCHANGED <<cur, nret, poll>>
         [] OTHER          -> rpc' = "parse" /\ LogEv(Ev("parse", 0)) /\ UNCHANGED <<cur, nret>>
  /\ UNCHANGED <<sendV, q, closedW, buf, ws, we, consumed, rdone, running, spur, path, cancels>>

RParseEnd == /\ running = "R" /\ rpc = "parse" /\ rdone' = TRUE /\ poll' = poll /\ EndPoll("R", "ready")
             /\ UNCHANGED <<sendV, q, closedW, buf, ws, we, rpc, cur, nret, consumed, spur, cancels>>

RGuardDrop ==
  /\ running = "R" /\ rpc = "guard" /\ cur <= we - ws
  /\ consumed' = consumed + cur
  /\ IF ws + cur = we THEN ws' = 0 /\ we' = 0 ELSE ws' = ws + cur /\ we' = we
  /\ rpc' = "validate"
  /\ UNCHANGED <<sendV, q, closedW, buf, cur, nret, rdone, running, spur, path, poll, cancels>>

RCompact ==
  /\ running = "R" /\ rpc = "read" /\ we = Cap /\ ws > 0
  /\ buf' = [i \in 1..Cap |-> IF i <= we - ws THEN buf[ws + i] ELSE buf[i]]
  /\ ws' = 0 /\ we' = we - ws
  /\ UNCHANGED <<sendV, q, closedW, rpc, cur, nret, consumed, rdone, running, spur, path, poll, cancels>>

RRead ==
  /\ running = "R" /\ rpc = "read" /\ we < Cap /\ Len(q) > 0
  /\ \E k \in 1..MinI(MinI(Len(q), Cap - we), ChunkMax) :
       /\ buf' = [i \in 1..Cap |-> IF i > we /\ i <= we + k THEN q[i - we] ELSE buf[i]]
       /\ we' = we + k /\ q' = SubSeq(q, k + 1, Len(q))
       /\ LogEv(Ev("r", k))
  /\ rpc' = "validate"
  /\ UNCHANGED <<sendV, closedW, ws, cur, nret, consumed, rdone, running, spur, path, cancels>>

RPendingEmpty ==
  /\ running = "R" /\ rpc = "read" /\ we < Cap /\ Len(q) = 0 /\ ~closedW
  /\ LogEv(Ev("rempty", 0)) /\ EndPoll("R", "pending")
  /\ UNCHANGED <<sendV, q, closedW, recvV, spur, cancels>>

RSpurious ==
  /\ running = "R" /\ rpc = "read" /\ we < Cap /\ spur < SpurMax /\ (Len(q) > 0 \/ closedW)
  /\ spur' = spur + 1
  /\ LogEv(Ev("rpend", 0)) /\ EndPoll("R", "pending")
  /\ UNCHANGED <<sendV, q, closedW, recvV, cancels>>

REof ==
  /\ running = "R" /\ rpc = "read" /\ we < Cap /\ Len(q) = 0 /\ closedW
  /\ rpc' = "closed" /\ rdone' = TRUE
  /\ LogEv(Ev("closed", 0)) /\ EndPoll("R", "ready")
  /\ UNCHANGED <<sendV, q, closedW, buf, ws, we, cur, nret, consumed, spur, cancels>>

ROom ==
  /\ running = "R" /\ rpc = "read" /\ we = Cap /\ ws = 0
  /\ rpc' = "oom" /\ rdone' = TRUE
  /\ LogEv(Ev("oom", 0)) /\ EndPoll("R", "ready")
  /\ UNCHANGED <<sendV, q, closedW, buf, ws, we, cur, nret, consumed, spur, cancels>>

RCancel ==              \* the user drops a recv future suspended at a pipe call and calls recv again: the new future starts
                        \* at validate; everything the old one had read stays in the buffer (recv is cancel-safe)
  /\ running = "none" /\ ~rdone /\ rpc = "read" /\ cancels < CancelMax
  /\ cancels' = cancels + 1 /\ rpc' = "validate"
  /\ path' = IF Record THEN Append(path, [task |-> "R", res |-> "cancel", evs |-> <<>>]) ELSE path
  /\ UNCHANGED <<sendV, q, closedW, buf, ws, we, cur, nret, consumed, rdone, running, spur, poll>>

SNext == SWrite \/ SPendingFull \/ SSpurious \/ SFlush
RNext == RValidate \/ RParseEnd \/ RGuardDrop \/ RCompact \/ RRead \/ RPendingEmpty \/ RSpurious \/ REof \/ ROom
Next == PollBegin("S") \/ PollBegin("R") \/ SNext \/ RNext \/ RCancel
Spec == Init /\ [][Next]_vars /\ WF_vars(SNext) /\ WF_vars(RNext) /\ SF_vars(PollBegin("S")) /\ SF_vars(PollBegin("R"))

NextP == Next /\ ((Len(path') # Len(path)) => PrintT(<<"CASE", ToJson([k |-> "ioasync", id |-> "", path |-> path', done |-> <<sdone', rdone'>>])>>))
SpecP == Init /\ [][NextP]_vars

(***************************************************************************)
(* Properties.                                                             *)
(***************************************************************************)
WindowInv == 0 <= ws /\ ws <= we /\ we <= Cap /\ ws % Align(MsgT) = 0
\* conservation: what the receiver holds, followed by what is in flight, is the sent stream, in order
HeadInv == Occupied \o q = SubSeq(Stream, consumed + 1, Sent)
GuardInside == rpc = "guard" => cur <= we - ws
DeliveredInOrder == /\ nret <= Len(Msgs) /\ rpc \notin {"parse", "oom"}
                    /\ (rpc = "guard" => Occupied # <<>> /\ SubSeq(Occupied, 1, cur) = SubSeq(Stream, consumed + 1, consumed + cur))
Boundaries == {LET RECURSIVE go(_) go(i) == IF i > n THEN 0 ELSE Len(Msgs[i]) + go(i + 1) IN go(1) : n \in 0..Len(Msgs)}
ConsumedWhole == consumed \in Boundaries /\ (rpc = "guard" => consumed + cur \in Boundaries)
ClosedMeansAll == rdone => (rpc = "closed" /\ nret = Len(Msgs) /\ sdone /\ q = <<>>)
\* a send completes (flush) only after every byte of its message has been accepted by the pipe
FlushBeforeDone == sdone => Sent = Len(Stream)
PipeBounded == Len(q) <= PipeCap
Terminates == <>(sdone /\ rdone)
=============================================================================
