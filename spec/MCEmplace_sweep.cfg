SPECIFICATION Spec
CONSTANTS
  NV = 1
  MaxLen = 3
  MaxItems = 2
  ArgVals = 1
  AssignMax = 4
  ContentMax = 6
  TypeIds <- SweepAll
INVARIANTS All
CHECK_DEADLOCK FALSE
