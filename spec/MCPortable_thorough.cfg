SPECIFICATION Spec
CONSTANTS
  Stride = 1
INVARIANTS ThUnary ThBinary ThConsts Emit
CHECK_DEADLOCK FALSE
