SPECIFICATION Spec
CONSTANTS
  NV = 2
  MaxLen = 2
  MaxItems = 2
  AssignMax = 4
  ArgVals = 1
  TypeIds = {"US1", "US2", "US3", "US4", "US5", "US6", "US7", "US8", "UE1", "UE2", "UE3", "UE4", "UE5", "UE6", "UE7", "UE8", "UE9", "UE10", "UE11", "UE12", "UE13", "UE14", "US9", "US10", "US11", "UE15", "UE16", "PE1", "GU1", "GU2", "GX1", "GP1", "GP2", "US12"}
  LMults = {0, 1, 2}
  BigInit = FALSE
  FollowUps = FALSE
INVARIANTS InvRoundTrip InvSize InvLenCap InvFlexShape
CHECK_DEADLOCK FALSE
