SPECIFICATION Spec
CONSTANTS
  NV = 2
  MaxLen = 2
  MaxItems = 2
  AssignMax = 4
  ArgVals = 1
  TypeIds = {"V_u8_u8", "V_u8_u16", "V_u8_u32", "V_u32_u8", "V_u64_u32", "V_u128_u8", "V_bool_u8", "V_ss3_u16", "V_i32_u16", "V_lei32_leu16", "V_u16_beu32", "V_ss5_u16", "V_se1_u8", "S_u8", "S_u16", "S_u32", "S_leu16", "V_u16_u64", "S_u64"}
  LMults = {0, 1, 2}
  BigInit = FALSE
  FollowUps = FALSE
INVARIANTS InvRoundTrip InvSize InvLenCap InvFlexShape
CONSTRAINT StrBound
CHECK_DEADLOCK FALSE
