---------------------------- MODULE TracePortable ----------------------------
(***************************************************************************)
(* Trace validation of portable scalars (implementation -> specification): *)
(* the seeded driver draws values of the full 16 / 32 / 64-bit range for   *)
(* every integer type, calls the real flatty::portable operations and logs *)
(* the results; TLC accepts the trace iff every logged result is the one   *)
(* the digit arithmetic of spec/Portable.tla gives.                        *)
(*                                                                         *)
(* Event: [ty, w, be, sg, a, b, stored, cmp, eq, add, sub, neg, to_u64,    *)
(* to_i64] with values as little-endian digit sequences; add / sub / neg   *)
(* are [v, panicked]; to_u64 / to_i64 are [some, v].                       *)
(***************************************************************************)
EXTENDS Portable, Json, IOUtils

Recs == ndJsonDeserialize(IOEnv.TRACE)
VARIABLE i
Init == i = 1

OptEq(spec, got) == spec.some = got.some /\ (spec.some => spec.v = got.v)
\* with overflow checks on, an overflowing native operation panics and the portable one must too;
\* otherwise the wrapped result is the digit arithmetic's
ArithEq(spec, got) == IF spec.ovf THEN got.panicked \/ got.v = spec.v ELSE ~got.panicked /\ got.v = spec.v

EventOk(e) ==
  /\ Len(e.a) = e.w /\ Len(e.b) = e.w
  /\ e.stored = Stored(e.be, e.a)
  /\ e.cmp = CmpInt(e.sg, e.a, e.b)
  /\ e.eq = (e.a = e.b)
  /\ ArithEq(AddInt(e.sg, e.a, e.b), e.add)
  /\ ArithEq(SubInt(e.sg, e.a, e.b), e.sub)
  /\ (e.sg => ArithEq(NegInt(e.a), e.neg))
  /\ OptEq(Convert(e.sg, e.a, FALSE, 8), e.to_u64)
  /\ OptEq(Convert(e.sg, e.a, TRUE, 8), e.to_i64)
  /\ OptEq(Convert(FALSE, Extend(FALSE, e.a, 8), e.sg, e.w), e.from_u64)
  /\ OptEq(Convert(TRUE, Extend(TRUE, e.a, 8), e.sg, e.w), e.from_i64)

Next == i <= Len(Recs) /\ EventOk(Recs[i]) /\ i' = i + 1
Spec == Init /\ [][Next]_i

Track == TLCSet(42, i)
Accepted ==
  IF TLCGet("stats").diameter = Len(Recs) + 1 THEN TRUE
  ELSE LET at == TLCGet(42) IN Print(<<"TRACE-REJECTED", "event", at, IF at <= Len(Recs) THEN ToJson(Recs[at]) ELSE "end">>, FALSE)
=============================================================================
