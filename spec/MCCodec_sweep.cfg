SPECIFICATION Spec
CONSTANTS
  NV = 1
  MaxLen = 1
  MaxItems = 2
  Alphabet = {0, 1, 2, 4, 255}
  MaxRaw = 4
  TypeIds <- SweepAll
  RawIds <- NoIds
  FillSet = {0, 255}
  LSteps = 2
INVARIANTS All
CHECK_DEADLOCK FALSE
