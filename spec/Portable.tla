------------------------------ MODULE Portable ------------------------------
(***************************************************************************)
(* Portable scalars (portable/src/{int,float,bool_}.rs): fixed byte order, *)
(* alignment 1, lossless conversion, ordering and arithmetic of the native *)
(* type.  Values are little-endian digit sequences of the two's complement *)
(* bit pattern (TLC integers are 32 bit): everything is computed on        *)
(* digits -- encoding, comparison, add / sub / neg with overflow, range    *)
(* checks of the conversions.  Multiplication, division and remainder, and *)
(* float ordering / arithmetic are delegated to the property's own oracle  *)
(* (the native operation), marked NATIVE in the vectors.                   *)
(***************************************************************************)
EXTENDS FlatCodec

\* ---- digit arithmetic (least significant digit first) -------------------------------------------
Width(a) == Len(a)
TopBit(a) == a[Len(a)] >= 128
IsNeg(signed, a) == signed /\ TopBit(a)
ZeroD(w) == Rep(w, 0)
OneD(w)  == [i \in 1..w |-> IF i = 1 THEN 1 ELSE 0]
MaxD(w, signed) == [i \in 1..w |-> IF i = w /\ signed THEN 127 ELSE 255]
MinD(w, signed) == [i \in 1..w |-> IF i = w /\ signed THEN 128 ELSE 0]

\* unsigned comparison of equal-width digit sequences: -1 / 0 / 1
CmpU(a, b) ==
  LET RECURSIVE go(_) go(i) == IF i = 0 THEN 0 ELSE IF a[i] < b[i] THEN -1 ELSE IF a[i] > b[i] THEN 1 ELSE go(i - 1)
  IN go(Len(a))
CmpInt(signed, a, b) ==
  IF IsNeg(signed, a) # IsNeg(signed, b) THEN (IF IsNeg(signed, a) THEN -1 ELSE 1) ELSE CmpU(a, b)

\* ripple-carry addition of a, b and carry-in c: [sum, carry]
AddC(a, b, c) ==
  LET RECURSIVE go(_, _, _)
      go(i, carry, acc) == IF i > Len(a) THEN [sum |-> acc, carry |-> carry]
                           ELSE LET t == a[i] + b[i] + carry IN go(i + 1, t \div 256, Append(acc, t % 256))
  IN go(1, c, <<>>)
NotD(a) == [i \in 1..Len(a) |-> 255 - a[i]]
\* results carry an overflow flag (the native debug build panics, the release build wraps)
AddInt(signed, a, b) ==
  LET r == AddC(a, b, 0)
      ovf == IF signed THEN TopBit(a) = TopBit(b) /\ TopBit(r.sum) # TopBit(a) ELSE r.carry = 1
  IN [v |-> r.sum, ovf |-> ovf]
SubInt(signed, a, b) ==
  LET r == AddC(a, NotD(b), 1)
      ovf == IF signed THEN TopBit(a) # TopBit(b) /\ TopBit(r.sum) # TopBit(a) ELSE r.carry = 0
  IN [v |-> r.sum, ovf |-> ovf]
NegInt(a) == LET r == AddC(NotD(a), ZeroD(Len(a)), 1) IN [v |-> r.sum, ovf |-> a = MinD(Len(a), TRUE)]

\* sign / zero extension and truncation between widths
Extend(signed, a, w) == [i \in 1..w |-> IF i <= Len(a) THEN a[i] ELSE IF IsNeg(signed, a) THEN 255 ELSE 0]
\* does the value of (signed, a) fit the target (tsigned, w)?  (range check of the checked conversions)
Fits(signed, a, tsigned, w) ==
  IF IsNeg(signed, a) THEN tsigned /\ CmpInt(TRUE, Extend(TRUE, a, 16), Extend(TRUE, MinD(w, TRUE), 16)) >= 0
  ELSE CmpU(Extend(FALSE, a, 16), Extend(FALSE, MaxD(w, tsigned), 16)) <= 0
Convert(signed, a, tsigned, w) ==
  IF Fits(signed, a, tsigned, w) THEN [some |-> TRUE, v |-> SubSeq(Extend(signed, a, 16), 1, w)] ELSE [some |-> FALSE, v |-> <<>>]

\* ---- the stored image ---------------------------------------------------------------------------
Stored(bigend, a) == IF bigend THEN Rev(a) ELSE a
Loaded(bigend, bytes) == IF bigend THEN Rev(bytes) ELSE bytes

\* ---- theorems (checked by TLC on the enumerated values, MCPortable) ------------------------------
ThRoundTrip(bigend, a) == Loaded(bigend, Stored(bigend, a)) = a
ThBeIsReverse(a) == Stored(TRUE, a) = Rev(Stored(FALSE, a))
ThCmpTotal(signed, a, b) == /\ CmpInt(signed, a, b) = -CmpInt(signed, b, a)
                            /\ (CmpInt(signed, a, b) = 0 <=> a = b)
ThAddSub(signed, a, b) == LET s == AddInt(signed, a, b) IN SubInt(signed, s.v, b).v = a
ThNeg(a) == NegInt(NegInt(a).v).v = a
ThMinMax(w, signed) == CmpInt(signed, MinD(w, signed), MaxD(w, signed)) = -1 /\ AddInt(signed, MaxD(w, signed), OneD(w)).ovf
=============================================================================
