------------------------------- MODULE MCMem -------------------------------
(***************************************************************************)
(* FlatMem: "a flat value in a buffer" as a state machine.  The state is   *)
(* the layout-annotated tree of a value of type T mapped on an L-byte      *)
(* slice (its byte image is Enc(tree)); the actions are the API calls.     *)
(* Initial states: the default state and every valid image of the bounded  *)
(* tree universe (externally produced images included: zero-terminated    *)
(* FlexVecs, slack in sealed regions).  Every generated transition is      *)
(* printed as a replayable case: pre-image, path, operation, result, post  *)
(* tree, size(), and the post-image mask (FIXED / ANY / SAME).  After a    *)
(* refused operation the enabled operations of the same node are printed   *)
(* as follow-ups (C13: "as if the failed call had never happened").        *)
(***************************************************************************)
EXTENDS Catalog, FlatOps, Json

CONSTANTS TypeIds, LMults, FollowUps,
          BigInit      \* TRUE: start from FlexVec<FlatVec<u8,u8>,u8> states whose last item is about L::MAX bytes long (the sealed
                       \* extent of the last item is / is not representable in the offset type)

VARIABLES ci, L, tree
vars == <<ci, L, tree>>
T == Catalog[ci].t

LMaxMult == CHOOSE m \in LMults : \A k \in LMults : k <= m
\* (lengths around the minimum of the type, and around the length in which every variant fits)
LSet(t) == {MinSize(t) + j * Align(t) : j \in LMults} \cup {MinSize(t) + LMaxMult * Align(t) + 1} \cup {RoomyMin(t), RoomyMin(t) + Align(t) + 1}

BigL == 264
BigTrees == [n \in 1..5 |-> [items |-> << [reg |-> 0, v |-> [cap |-> 255, items |-> Rep(249 + n, <<7>>)]] >>]]
Init ==
  IF BigInit
    THEN /\ ci \in {i \in DOMAIN Catalog : Catalog[i].id = "X_vu8_u8"}
         /\ L = BigL
         /\ \/ \E n \in DOMAIN BigTrees : tree = BigTrees[n]
            \/ tree = [items |-> <<>>]          \* ... and from the empty vector, into which items of 251 .. 254 bytes are pushed
    ELSE /\ ci \in {i \in DOMAIN Catalog : Catalog[i].id \in TypeIds}
         /\ L \in LSet(Catalog[ci].t)
         /\ LET tv == TV(Catalog[ci].t, L) IN \E vi \in 1..Len(tv) : tree = tv[vi]

StepRec(path, o, r) == [path |-> [i \in 1..Len(path) |-> path[i] - 1], op |-> o, ok |-> r.ok, ret |-> r.ret]

OpCase(path, o, r, follow) ==
  LET t2 == IF follow.has THEN follow.r.tree ELSE r.tree
      last == IF follow.has THEN follow.r ELSE r
  IN [k |-> "op", id |-> Catalog[ci].id, L |-> L, portable |-> IsPortable(T),
      pre |-> Enc(tree, T, L), pretree |-> tree,
      steps |-> IF follow.has THEN <<StepRec(path, o, r), StepRec(follow.path, follow.o, follow.r)>> ELSE <<StepRec(path, o, r)>>,
      node |-> Get(tree, T, L, path, 0).t.k,
      via |-> [i \in 1..Len(path) |-> Get(tree, T, L, SubSeq(path, 1, i - 1), 0).t.k],
      exp |-> [tree |-> t2, size |-> Size(t2, T), anyvalid |-> r.anyvalid \/ last.anyvalid,
               mask |-> IF follow.has THEN Mask(t2, T, L, 0, L) ELSE Mask(t2, T, L, r.off, r.len)]]
NoFollow == [has |-> FALSE]

IsContainerOp(nt, o) == nt.k \in {"vec", "str", "flex"} /\ o.op \in {"push", "push_slice", "push_str", "push_default"}

Step ==
  LET paths == Paths(tree, T, L) IN
  \E pi \in 1..Len(paths) :
    LET path == paths[pi]
        nd == Get(tree, T, L, path, 0)
        \* (an item whose own record reaches L::MAX can be pushed -- as the last item -- but never sealed afterwards)
        ops == IF BigInit /\ path = <<>> /\ Len(tree.items) = 0
                 THEN [k \in 1..4 |-> Op("push", 0, Rep(250 + k, <<7>>))]
                 ELSE OpsAt(nd.v, nd.t, nd.l, path = <<>>)
    IN \E oi \in 1..Len(ops) :
         LET o == ops[oi]  r == Apply(tree, T, L, path, o) IN
         \* (with the long vectors of BigInit only the operations that move the boundary are explored)
         /\ (BigInit => (path = <<>> /\ o.op \in {"push", "push_default", "pop"}) \/ (path = <<1>> /\ o.op \in {"push", "pop"}))
         /\ tree' = r.tree
         /\ PrintT(<<"CASE", ToJson(OpCase(path, o, r, NoFollow))>>)
         /\ (FollowUps /\ ~r.ok /\ IsContainerOp(nd.t, o)) =>
               \A fi \in 1..Len(ops) :
                  PrintT(<<"CASE", ToJson(OpCase(path, o, r, [has |-> TRUE, path |-> path, o |-> ops[fi], r |-> Apply(tree, T, L, path, ops[fi])]))>>)
         /\ UNCHANGED <<ci, L>>

Next == Step
Spec == Init /\ [][Next]_vars

\* state constraint of the BigInit configuration: at most two items, the second one short
BigBound == /\ Len(tree.items) \in 0..2
            /\ (Len(tree.items) >= 1 => Len(tree.items[1].v.items) >= 249)
            /\ (Len(tree.items) = 2 => Len(tree.items[2].v.items) <= 1)

\* state constraint of the container configurations: a string is not grown beyond a few characters (its capacity can be
\* tens of bytes with a wide length type; longer strings add states, not behaviour)
StrBound == T.k = "str" => Len(tree.bytes) <= 4

\* ---- invariants of every reachable state --------------------------------------------------------
InvRoundTrip == RoundTrip(tree, T, L)
InvSize      == SizeSufficient(tree, T, L)
InvLenCap    == LenLeCap(tree, T)
\* every FlexVec chain keeps the shape the decoder accepts: only the last item may be open
RECURSIVE FlexShape(_, _)
FlexShape(x, t) ==
  CASE t.k = "flex" -> /\ \A i \in 1..Len(x.items) : (x.items[i].reg = 0 => i = Len(x.items)) /\ FlexShape(x.items[i].v, t.elem[1])
    [] t.k = "struct" -> \A i \in 1..Len(x) : FlexShape(x[i], t.fields[i])
    [] t.k = "enum" -> \A i \in 1..Len(x.fs) : FlexShape(x.fs[i], t.vars[x.tag][i])
    [] OTHER -> TRUE
InvFlexShape == FlexShape(tree, T)
=============================================================================
