---------------------------- MODULE LayoutArith ----------------------------
(***************************************************************************)
(* The rounding arithmetic every layout rule of the specification rests on *)
(* (FlatTypes.tla: CeilMul, FloorMul; used by FlatLayout for field         *)
(* offsets, view sizes, extents and by the IO window), proved for ALL      *)
(* integers with the TLA+ proof system (tlapm, SMT back end), where TLC    *)
(* can only evaluate it on the sizes of the catalog.                       *)
(*                                                                         *)
(*   tlapm --threads 8 LayoutArith.tla                                     *)
(***************************************************************************)
EXTENDS Integers, TLAPS

CeilMul(x, m)  == ((x + m - 1) \div m) * m
FloorMul(x, m) == (x \div m) * m

\* what the SMT back ends need to know about \div and % (Euclidean division by a positive divisor)
LEMMA DivMod == \A x \in Int, m \in Nat \ {0} :
                  /\ x \div m \in Int
                  /\ x = (x \div m) * m + (x % m)
                  /\ 0 <= x % m /\ x % m < m
  BY Z3

THEOREM FloorMulProps ==
  \A x \in Nat, m \in Nat \ {0} :
     /\ FloorMul(x, m) \in Int
     /\ FloorMul(x, m) <= x                      \* a view never claims more than the slice
     /\ x < FloorMul(x, m) + m                   \* ... and drops less than one alignment unit
     /\ \E k \in Int : FloorMul(x, m) = k * m    \* ... and is a whole number of alignment units
<1> SUFFICES ASSUME NEW x \in Nat, NEW m \in Nat \ {0}
             PROVE  /\ FloorMul(x, m) \in Int /\ FloorMul(x, m) <= x
                    /\ x < FloorMul(x, m) + m /\ \E k \in Int : FloorMul(x, m) = k * m
  OBVIOUS
<1> DEFINE q == x \div m
<1>1. q \in Int /\ x = q * m + (x % m) /\ 0 <= x % m /\ x % m < m
  BY DivMod
<1>2. q * m \in Int
  BY <1>1, Z3
<1>3. \E k \in Int : FloorMul(x, m) = k * m
  BY <1>1 DEF FloorMul
<1> QED BY <1>1, <1>2, <1>3, Z3 DEF FloorMul

THEOREM CeilMulProps ==
  \A x \in Nat, m \in Nat \ {0} :
     /\ CeilMul(x, m) \in Int
     /\ x <= CeilMul(x, m)                       \* an offset / extent is never before the end of what precedes it
     /\ CeilMul(x, m) < x + m                    \* padding is smaller than the alignment
     /\ \E k \in Int : CeilMul(x, m) = k * m
<1> SUFFICES ASSUME NEW x \in Nat, NEW m \in Nat \ {0}
             PROVE  /\ CeilMul(x, m) \in Int /\ x <= CeilMul(x, m) /\ CeilMul(x, m) < x + m /\ \E k \in Int : CeilMul(x, m) = k * m
  OBVIOUS
<1> DEFINE y == x + m - 1
<1> DEFINE q == y \div m
<1>0. y \in Int
  OBVIOUS
<1>1. q \in Int /\ y = q * m + (y % m) /\ 0 <= y % m /\ y % m < m
  BY <1>0, DivMod
<1>2. q * m \in Int
  BY <1>1, Z3
<1>3. \E k \in Int : CeilMul(x, m) = k * m
  BY <1>1 DEF CeilMul
<1> QED BY <1>1, <1>2, <1>3, Z3 DEF CeilMul

\* the padding in front of a field and the bytes a view drops are both smaller than the alignment, so a field
\* offset computed by CeilMul and a view computed by FloorMul never disagree by a whole unit
THEOREM CeilFloorGap ==
  \A x \in Nat, m \in Nat \ {0} : CeilMul(x, m) - FloorMul(x, m) < 2 * m /\ FloorMul(x, m) <= CeilMul(x, m)
  BY FloorMulProps, CeilMulProps, Z3
=============================================================================
