------------------------------ MODULE MCIoRecv ------------------------------
(* Model-checking instances of IoRecv: message types from the catalog, streams built from their   *)
(* contents by the reference encoder (valid streams), and arbitrary / mutated / truncated streams. *)
EXTENDS Catalog, IoRecv

CONSTANTS MsgId,      \* catalog id of the message type
          NMsgs,      \* messages per valid stream
          RawLen, RawAlphabet, Arbitrary

MT == TypeOf(MsgId)
\* (a FlexVec message gets room for a second and third item: reads / writes that end exactly at an item boundary)
GenLen == RoomyMin(MT) + 2 * Align(MT) + 1 + (IF MT.k = "flex" THEN 2 * (FlexOffsetSize(MT) + CeilMul(MinSize(MT.elem[1]), Align(MT))) ELSE 0)
\* message contents: spread over the tree universe of a generous slice
Conts == LET tv == TV(MT, GenLen)  n == Len(tv)  m == MinI(n, 5)
             idx(j) == IF m = 1 THEN 1 ELSE 1 + ((j - 1) * (n - 1)) \div (m - 1)
             \* for a FlexVec message the middle pick is a tree with the most items
             most == CHOOSE i \in 1..n : \A k \in 1..n : Len(tv[i].items) >= Len(tv[k].items)
             pick(j) == IF MT.k = "flex" /\ j = (m + 1) \div 2 THEN most ELSE idx(j)
         IN [j \in 1..m |-> Content(tv[pick(j)], MT)]
MaxLenOf(cs) == LET RECURSIVE go(_) go(i) == IF i > Len(cs) THEN MinSize(MT) ELSE MaxI(Size(Build(cs[i], MT, 4 * GenLen).tree, MT), go(i + 1)) IN go(1)
MML == MaxLenOf(Conts)
BufCap == IF CapExtra < 1000 THEN CeilMul(MaxI(MML, MinSize(MT)) + CapExtra, Align(MT)) ELSE 2 * MaxI(MML, MinSize(MT))
MsgBytes(c, g) == LET tr == Build(c, MT, BufCap).tree IN Fill(SubSeq(Enc(tr, MT, BufCap), 1, Size(tr, MT)), g)
\* message index sequences of length NMsgs: rotations, so that every content is first, middle and last
\* (ascending and descending rotations: small-before-large and large-before-small neighbours both occur)
Seqs == [s \in 1..Len(Conts) |-> [i \in 1..NMsgs |-> ((s + i - 2) % Len(Conts)) + 1]]
        \o [s \in 1..Len(Conts) |-> [i \in 1..NMsgs |-> ((s + 2 * Len(Conts) - i) % Len(Conts)) + 1]]
ValidStreams == [s \in 1..Len(Seqs) |->
                  [bytes |-> Flatten([i \in 1..NMsgs |-> MsgBytes(Conts[Seqs[s][i]], 170)]), nmsg |-> NMsgs,
                   msgs |-> [i \in 1..NMsgs |-> Conts[Seqs[s][i]]]]]
\* arbitrary streams: all strings over the alphabet up to RawLen; valid streams with one byte replaced; truncated valid streams
RECURSIVE Strs(_)
Strs(n) == IF n = 0 THEN << <<>> >> ELSE LET p == Strs(n - 1) al == SetToSeq(RawAlphabet) IN
           p \o Flatten([i \in 1..Len(p) |-> IF Len(p[i]) = n - 1 THEN [j \in 1..Len(al) |-> Append(p[i], al[j])] ELSE <<>>])
Mutated == LET b == ValidStreams[1].bytes IN
           Flatten([i \in 1..Len(b) |-> [j \in 1..3 |-> [b EXCEPT ![i] = <<1, 200, 255>>[j]]]])
\* a stream that starts with the richest message, undetermined bytes zero, one byte moved by +2 / -2: offsets and lengths that
\* stay aligned for the length type but not for the value (a link into the padding of the next slot reads as a terminator)
MutatedAligned == LET sq == Seqs[(Len(Conts) + 1) \div 2]
                      b == Flatten([i \in 1..NMsgs |-> MsgBytes(Conts[sq[i]], 0)]) IN
                  Flatten([i \in 1..MinI(Len(b), 16) |-> [j \in 1..2 |-> [b EXCEPT ![i] = (b[i] + <<2, 254>>[j]) % 256]]])
Truncated == LET b == ValidStreams[1].bytes IN [i \in 1..(Len(b) - 1) |-> SubSeq(b, 1, i)]
\* a header announcing more than fits, followed by enough bytes to fill the buffer (buffer exhaustion, not a hang)
MutatedLong == LET b == ValidStreams[1].bytes IN
               [i \in 1..Len(b) |-> [b EXCEPT ![i] = 255] \o Rep(BufCap + 3, 85)]
ArbStreams == LET all == Strs(RawLen) \o Mutated \o MutatedAligned \o Truncated \o MutatedLong IN [i \in 1..Len(all) |-> [bytes |-> all[i], nmsg |-> -1, msgs |-> <<>>]]
MCStreams == IF Arbitrary THEN ArbStreams ELSE ValidStreams

(***************************************************************************)
(* Refinement: the receiver (with its bytes) implements the integer window *)
(* machine IoWindow, whose inductive invariant Apalache establishes for    *)
(* every capacity / alignment / chunk / message size.  TLC checks the      *)
(* refinement mapping on the permissive instances: every step of IoRecv is *)
(* a step of IoWindow or leaves its variables unchanged, and every         *)
(* reachable state satisfies IoWindow's IndInv -- so the unbounded result  *)
(* is about this specification and not about a look-alike.                 *)
(***************************************************************************)
W == INSTANCE IoWindow WITH Cap <- Cap, A <- Align(MsgT), ws <- ws, we <- we, rd <- rd, consumed <- consumed,
                            guard <- IF rpc = "guard" THEN cur ELSE 0
WindowIndInv == W!IndInv
RefinesWindow == [][W!Next]_<<ws, we, rd, consumed, IF rpc = "guard" THEN cur ELSE 0>>

Header(i) == [k |-> "iostream", id |-> MsgId, si |-> i, bytes |-> MCStreams[i].bytes, msgs |-> MCStreams[i].msgs,
              nmsg |-> MCStreams[i].nmsg, maxlen |-> MML, cap |-> BufCap]
EmitHeaders == \A i \in DOMAIN MCStreams : PrintT(<<"CASE", ToJson(Header(i))>>)
ASSUME EmitHeaders
=============================================================================
