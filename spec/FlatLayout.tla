----------------------------- MODULE FlatLayout -----------------------------
(***************************************************************************)
(* The reference layout of flat types: the plain C rule applied to the     *)
(* declared field list, the container headers, and the *view rule* that    *)
(* says how many bytes of an L-byte slice a mapped value covers.           *)
(*                                                                         *)
(* Code this mirrors (and is compared with, C04):                          *)
(*   base/src/utils/{mod,iter}.rs   ceil_mul, floor_mul, PosIter, min_size *)
(*   containers/src/vec.rs          DATA_OFFSET, ALIGN, ptr_from_bytes      *)
(*   containers/src/string.rs       DATA_OFFSET, ptr_from_bytes             *)
(*   containers/src/flex.rs         OFFSET_SIZE, ptr_from_bytes             *)
(*   macros/src/items/base.rs       ALIGN, MIN_SIZE, DATA_OFFSET,           *)
(*                                  DATA_MIN_SIZES, LAST_FIELD_OFFSET       *)
(*   macros/src/items/unsized_.rs   ptr_from_bytes of unsized struct/enum   *)
(***************************************************************************)
EXTENDS FlatTypes

RECURSIVE Align(_), StaticSize(_), MinSize(_), FieldOffsFrom(_, _, _, _)

SeqMaxAlign(fs) ==
  LET RECURSIVE go(_) go(i) == IF i > Len(fs) THEN 1 ELSE MaxI(Align(fs[i]), go(i + 1)) IN go(1)

Align(t) ==
  CASE t.k \in {"prim", "pint", "pfloat"} -> t.align
    [] t.k \in {"unit", "bool"} -> 1
    [] t.k = "arr"  -> Align(t.elem[1])
    [] t.k = "vec"  -> MaxI(Align(t.lt[1]), Align(t.elem[1]))
    [] t.k = "str"  -> Align(t.lt[1])
    [] t.k = "flex" -> MaxI(Align(t.lt[1]), Align(t.elem[1]))
    [] t.k = "struct" -> SeqMaxAlign(t.fields)
    [] t.k = "enum" ->
         LET RECURSIVE go(_) go(i) == IF i > Len(t.vars) THEN 1 ELSE MaxI(SeqMaxAlign(t.vars[i]), go(i + 1))
         IN MaxI(t.size, go(1))       \* the tag is a native integer of width t.size

\* size a field occupies in its parent's field list: static size, or the minimum for an unsized tail
SlotSize(t) == IF IsSized(t) THEN StaticSize(t) ELSE MinSize(t)

\* C rule: pos_{i+1} = CeilMul(pos_i + size_i, align_{i+1}); returns the sequence of offsets
FieldOffsFrom(fs, i, pos, acc) ==
  IF i > Len(fs) THEN acc
  ELSE LET p == CeilMul(pos, Align(fs[i])) IN FieldOffsFrom(fs, i + 1, p + SlotSize(fs[i]), Append(acc, p))
FieldOffs(fs) == FieldOffsFrom(fs, 1, 0, <<>>)
\* end of the last field (no trailing padding); 0 for an empty list
FieldsEnd(fs) == IF fs = <<>> THEN 0 ELSE FieldOffs(fs)[Len(fs)] + SlotSize(fs[Len(fs)])

VecDataOffset(t)  == MaxI(t.lt[1].size, Align(t.elem[1]))
StrDataOffset(t)  == t.lt[1].size
FlexOffsetSize(t) == MaxI(t.lt[1].size, Align(t.elem[1]))
EnumDataOffset(t) == CeilMul(t.size, Align(t))
LastFieldOffset(t) == FieldOffs(t.fields)[Len(t.fields)]
VariantEnd(t, i)  == FieldsEnd(t.vars[i])

StaticSize(t) ==
  CASE t.k \in {"prim", "pint", "pfloat", "bool"} -> t.size
    [] t.k = "unit" -> 0
    [] t.k = "arr"  -> t.n * StaticSize(t.elem[1])
    [] t.k = "struct" -> CeilMul(FieldsEnd(t.fields), Align(t))
    [] t.k = "enum" ->
         IF IsCLike(t) THEN t.size
         ELSE LET RECURSIVE go(_) go(i) == IF i > Len(t.vars) THEN 0 ELSE MaxI(FieldsEnd(t.vars[i]), go(i + 1))
              IN CeilMul(EnumDataOffset(t) + go(1), Align(t))
    [] OTHER -> 0          \* unsized: no static size

(* Minimum size: the smallest slice that can be mapped.  It includes the trailing padding up to   *)
(* the alignment (a mapped value never covers a length that is not a multiple of its alignment).  *)
MinSize(t) ==
  CASE IsSized(t) -> StaticSize(t)
    [] t.k = "vec"  -> VecDataOffset(t)
    [] t.k = "str"  -> StrDataOffset(t)
    [] t.k = "flex" -> FlexOffsetSize(t)
    [] t.k = "struct" -> CeilMul(FieldsEnd(t.fields), Align(t))
    [] t.k = "enum" ->
         LET RECURSIVE go(_) go(i) == IF i > Len(t.vars) THEN BIG ELSE MinI(FieldsEnd(t.vars[i]), go(i + 1))
         IN CeilMul(EnumDataOffset(t) + go(1), Align(t))

\* the smallest slice in which every variant of an unsized enum fits with empty tails (MinSize is the smallest variant's);
\* generous slice lengths for enumerating contents start from here
RoomyMin(t) ==
  IF t.k = "enum" /\ ~IsSized(t)
    THEN LET RECURSIVE go(_) go(i) == IF i > Len(t.vars) THEN 0 ELSE MaxI(FieldsEnd(t.vars[i]), go(i + 1))
         IN CeilMul(EnumDataOffset(t) + go(1), Align(t))
    ELSE MinSize(t)

\* maximum of a length type, saturated
LMaxSat(l) == IF l.size = 1 THEN 255 ELSE IF l.size = 2 THEN 65535 ELSE BIG

(***************************************************************************)
(* The view rule.  L is the length of an aligned slice, L >= MinSize(t).   *)
(***************************************************************************)
VecRawCap(t, L) ==
  LET es == StaticSize(t.elem[1]) raw == FloorMul(L - VecDataOffset(t), Align(t))
  IN IF es = 0 THEN BIG ELSE raw \div es
VecCap(t, L) == MinI(VecRawCap(t, L), LMaxSat(t.lt[1]))
StrRawCap(t, L) == FloorMul(L - StrDataOffset(t), Align(t))
StrCap(t, L) == MinI(StrRawCap(t, L), LMaxSat(t.lt[1]))
FlexView(t, L) == FloorMul(L, Align(t))
EnumDataLen(t, L) == FloorMul(L - EnumDataOffset(t), Align(t))

RECURSIVE ViewRaw(_, _)
\* end of the last byte the mapped value can use
ViewRaw(t, L) ==
  CASE IsSized(t) -> StaticSize(t)
    [] t.k = "vec"  -> LET es == StaticSize(t.elem[1])
                       IN VecDataOffset(t) + (IF es = 0 THEN 0 ELSE VecRawCap(t, L) * es)
    [] t.k = "str"  -> StrDataOffset(t) + StrRawCap(t, L)
    [] t.k = "flex" -> FlexView(t, L)
    [] t.k = "struct" -> LET o == LastFieldOffset(t)
                         IN o + ViewRaw(t.fields[Len(t.fields)], FloorMul(L, Align(t)) - o)
    [] t.k = "enum" -> EnumDataOffset(t) + EnumDataLen(t, L)
(* Number of bytes the mapped value covers: what size_of_val of the mapped reference is, and what  *)
(* as_bytes() must return for "the value's own bytes validate again" (C02) to be satisfiable: a   *)
(* view whose length is not a multiple of the alignment would be floored when mapped again.        *)
ViewLen(t, L)  == CeilMul(ViewRaw(t, L), Align(t))
ViewSize(t, L) == ViewLen(t, L)

(***************************************************************************)
(* Theorems about the layout (checked by TLC over the catalog, MCLayout).  *)
(***************************************************************************)
IsPow2(x) == x \in {1, 2, 4, 8, 16}

RECURSIVE FieldsSane(_)
FieldsSane(fs) ==
  LET offs == FieldOffs(fs) IN
  \A i \in DOMAIN fs :
     /\ offs[i] % Align(fs[i]) = 0
     /\ (i > 1 => offs[i] >= offs[i - 1] + SlotSize(fs[i - 1]))
     /\ (i > 1 => offs[i] - (offs[i - 1] + SlotSize(fs[i - 1])) < Align(fs[i]))    \* no more padding than needed

LayoutSane(t) ==
  /\ IsPow2(Align(t))
  /\ MinSize(t) % Align(t) = 0
  /\ (IsSized(t) => StaticSize(t) % Align(t) = 0)
  /\ (t.k = "struct" => FieldsSane(t.fields) /\ (\A i \in DOMAIN t.fields : Align(t) % Align(t.fields[i]) = 0))
  /\ (t.k = "enum" =>
        /\ EnumDataOffset(t) >= t.size
        /\ EnumDataOffset(t) % Align(t) = 0
        /\ \A i \in DOMAIN t.vars : FieldsSane(t.vars[i])
        /\ (t.sized /\ ~IsCLike(t) => \A i \in DOMAIN t.vars : EnumDataOffset(t) + FieldsEnd(t.vars[i]) <= StaticSize(t)))
  /\ (t.k = "vec"  => VecDataOffset(t) >= t.lt[1].size /\ VecDataOffset(t) % Align(t) = 0)
  /\ (t.k = "flex" => FlexOffsetSize(t) >= t.lt[1].size /\ FlexOffsetSize(t) % Align(t.elem[1]) = 0)

\* a mapped value never claims more bytes than the slice it was mapped from (C04, C14)
ViewInside(t, L) ==
  /\ ViewLen(t, L) <= L
  /\ ViewLen(t, L) >= MinSize(t)
  /\ ViewLen(t, L) % Align(t) = 0
  /\ ViewLen(t, ViewLen(t, L)) = ViewLen(t, L)          \* mapping the value's own bytes gives the same view

\* C17: a portable type has alignment 1 and therefore no padding anywhere
PortablePacked(t) == IsPortable(t) => Align(t) = 1
=============================================================================
