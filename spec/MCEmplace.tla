----------------------------- MODULE MCEmplace -----------------------------
(***************************************************************************)
(* Model: in-place initialisation.  For every catalog type, every content  *)
(* of the bounded universe (and the default state), every single slice     *)
(* length from 0 to beyond what the content needs, and every address       *)
(* offset: what new_in_place / default_in_place must answer, and the image *)
(* they must produce.                                                      *)
(*                                                                         *)
(* The expectation is three-valued (DESIGN.md 3.4): "ok" when the content  *)
(* fits the view of the slice, "err" when it does not fit even if the      *)
(* slice were extended to the next alignment boundary (or the slice is     *)
(* misaligned / shorter than MIN_SIZE), "either" in the thin zone between  *)
(* -- an implementation that accepts there must still satisfy C03.         *)
(***************************************************************************)
EXTENDS Catalog, FlatOps, Json

CONSTANTS TypeIds, ContentMax

VARIABLES ci, L, addr, mode, cidx
vars == <<ci, L, addr, mode, cidx>>
T == Catalog[ci].t

GenLen(t) == IF IsSized(t) THEN StaticSize(t) ELSE RoomyMin(t) + 3 * Align(t) + 1
MaxL(t)   == GenLen(t) + Align(t) + 1

\* contents offered: spread over the trees that fit a generous slice
Contents(t) ==
  LET tv == TV(t, GenLen(t))  n == Len(tv)  m == MinI(n, ContentMax)
      idx(j) == IF m = 1 THEN 1 ELSE 1 + ((j - 1) * (n - 1)) \div (m - 1)
  IN [j \in 1..m |-> Content(tv[idx(j)], t)]

Init ==
  /\ ci \in {i \in DOMAIN Catalog : Catalog[i].id \in TypeIds}
  /\ L = 0 /\ addr = 0 /\ mode = "seed" /\ cidx = 0

\* vectors whose length is at the maximum of a one-byte length type: slices of 257 / 300 bytes, 254 .. 256 items
\* ... and FlexVec<FlatVec<u8,u8>,u8> whose *non-last* item has a record of 253 / 254 / 255 bytes: 255 = L::MAX is the
\* "last item" marker and cannot seal an item (flex::FromIterator must refuse it, as push does)
BigIds == {"V_u8_u8", "V_unit_u8", "X_vu8_u8"}
BigConts == IF T.k = "flex" THEN [n \in 1..3 |-> << Rep(250 + n, <<7>>), << <<1>> >> >>]
            ELSE [n \in 1..3 |-> Rep(253 + n, IF T.elem[1].k = "unit" THEN <<>> ELSE <<7>>)]
Seed ==
  /\ mode = "seed"
  /\ \/ /\ \/ mode' = "new" /\ cidx' \in 1..Len(Contents(T))
           \/ HasDefault(T) /\ mode' = "default" /\ cidx' = 0
        /\ L' \in 0..MaxL(T)
     \/ /\ Catalog[ci].id \in BigIds /\ mode' = "big" /\ cidx' \in 1..3 /\ L' \in {256, 257, 300}
  /\ addr' \in {0} \cup (IF L' \in {MinSize(T), MaxL(T)} \/ IsPortable(T) THEN 1..MaxI(Align(T) - 1, IF IsPortable(T) THEN 3 ELSE 0) ELSE {})
  /\ UNCHANGED ci
Next == Seed
Spec == Init /\ [][Next]_vars

Cont == IF mode = "default" THEN DefaultContent(T) ELSE IF mode = "big" THEN BigConts[cidx] ELSE Contents(T)[cidx]
B == Build(Cont, T, L)
Outcome ==
  IF addr % Align(T) # 0 THEN [o |-> "err", kinds |-> IF L >= MinSize(T) THEN <<"BadAlign">> ELSE <<"BadAlign", "InsufficientSize">>]
  ELSE IF B.ok THEN [o |-> "ok", kinds |-> <<>>]
  ELSE IF L >= MinSize(T) /\ Build(Cont, T, L + Align(T) - 1).ok THEN [o |-> "either", kinds |-> <<"InsufficientSize">>]
  ELSE [o |-> "err", kinds |-> <<"InsufficientSize">>]

\* ---- theorems -------------------------------------------------------------------------------------
Active == mode # "seed" /\ addr % Align(T) = 0 /\ B.ok
ThBuildValid == Active => RoundTrip(B.tree, T, L) /\ SizeSufficient(B.tree, T, L) /\ LenLeCap(B.tree, T)
ThBuildContent == Active => SameContent(B.tree, Remap(B.tree, T, L), T) /\ Content(B.tree, T) = Content(B.tree, T)
\* emplacement is monotone in the slice length: what fits L fits every longer slice
ThMonotone == (mode # "seed" /\ addr = 0 /\ B.ok /\ L < MaxL(T)) => Build(Cont, T, L + 1).ok
\* the default state has the minimal size of the type
ThDefaultMinimal == (Active /\ mode = "default") => Size(B.tree, T) = MinSize(T) \/ T.k = "enum"
\* C17: a portable value has no undetermined byte inside its extent
NoAnyInside == LET img == Enc(B.tree, T, L) IN \A i \in 1..Size(B.tree, T) : img[i] # ANY
\* (a sized enum keeps the bytes of its largest variant: after a shorter variant they are undetermined,
\* which is not padding; types containing one are exempt from the byte-exactness theorem)
RECURSIVE HasSizedDataEnum(_)
HasSizedDataEnum(t) ==
  CASE t.k \in {"arr", "vec", "flex"} -> HasSizedDataEnum(t.elem[1])
    [] t.k = "struct" -> \E i \in DOMAIN t.fields : HasSizedDataEnum(t.fields[i])
    [] t.k = "enum" -> (t.sized /\ ~IsCLike(t)) \/ \E i \in DOMAIN t.vars : \E j \in DOMAIN t.vars[i] : HasSizedDataEnum(t.vars[i][j])
    [] OTHER -> FALSE
ThPortableImage == (Active /\ IsPortable(T) /\ ~HasSizedDataEnum(T) /\ ~(T.k = "enum" /\ T.size > 1)) => NoAnyInside

Case == [k |-> "emp", id |-> Catalog[ci].id, L |-> L, addr |-> addr, mode |-> mode, content |-> Cont,
         portable |-> IsPortable(T), hasdefault |-> HasDefault(T), sized |-> IsSized(T),
         exp |-> [o |-> Outcome.o, kinds |-> Outcome.kinds,
                  tree |-> IF B.ok THEN B.tree ELSE <<>>,
                  img |-> IF B.ok THEN Enc(B.tree, T, L) ELSE <<>>,
                  size |-> IF B.ok THEN Size(B.tree, T) ELSE 0]]
Emit == mode # "seed" => PrintT(<<"CASE", ToJson(Case)>>)

\* all theorems and the emission in one invariant: Build is evaluated once per state
All ==
  mode # "seed" =>
    LET b == B  act == addr % Align(T) = 0 /\ b.ok IN
    /\ (act => /\ RoundTrip(b.tree, T, L) /\ SizeSufficient(b.tree, T, L) /\ LenLeCap(b.tree, T)
               /\ SameContent(b.tree, Remap(b.tree, T, L), T)
               /\ (mode = "default" => Size(b.tree, T) = MinSize(T) \/ T.k = "enum")
               /\ ((IsPortable(T) /\ ~HasSizedDataEnum(T) /\ ~(T.k = "enum" /\ T.size > 1)) =>
                      LET img == Enc(b.tree, T, L) IN \A i \in 1..Size(b.tree, T) : img[i] # ANY))
    /\ ((addr = 0 /\ b.ok /\ L < MaxL(T)) => Build(Cont, T, L + 1).ok)
    /\ LET oc == IF addr % Align(T) # 0 THEN [o |-> "err", kinds |-> IF L >= MinSize(T) THEN <<"BadAlign">> ELSE <<"BadAlign", "InsufficientSize">>]
                  ELSE IF b.ok THEN [o |-> "ok", kinds |-> <<>>]
                  ELSE IF L >= MinSize(T) /\ Build(Cont, T, L + Align(T) - 1).ok THEN [o |-> "either", kinds |-> <<"InsufficientSize">>]
                  ELSE [o |-> "err", kinds |-> <<"InsufficientSize">>]
       IN PrintT(<<"CASE", ToJson([k |-> "emp", id |-> Catalog[ci].id, L |-> L, addr |-> addr, mode |-> IF mode = "big" THEN "new" ELSE mode, content |-> Cont,
                                   portable |-> IsPortable(T), hasdefault |-> HasDefault(T), sized |-> IsSized(T),
                                   exp |-> [o |-> oc.o, kinds |-> oc.kinds,
                                            tree |-> IF b.ok THEN b.tree ELSE <<>>,
                                            img |-> IF b.ok THEN Enc(b.tree, T, L) ELSE <<>>,
                                            size |-> IF b.ok THEN Size(b.tree, T) ELSE 0]])>>)

AllIds == CatIds
SweepAll == SweepIds
=============================================================================
