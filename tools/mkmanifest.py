#!/usr/bin/env python3
"""Write MANIFEST.json from tools/plans.py (claimed properties) and properties.jsonl (the rest)."""
import json, os, subprocess, sys
ROOT = os.path.dirname(os.path.dirname(os.path.abspath(__file__)))
sys.path.insert(0, os.path.join(ROOT, "tools"))
from plans import PLANS, META

props = [json.loads(l) for l in open(os.path.join(ROOT, "properties.jsonl"))]
hooks_commits = META.get("hook_commits", [])
checks = []
for p in props:
    pid = p["id"]
    if pid not in PLANS or PLANS[pid].get("unclaimed"):
        continue
    pl = PLANS[pid]
    checks.append({
        "property_id": pid,
        "quick_cmd": "./check %s quick" % pid,
        "thorough_cmd": "./check %s thorough" % pid,
        "evidence_file": "/verif/evidence/%s.json" % pid,
        "replay_cmd_template": "./check %s --replay {path}" % pid,
        "engine": pl.get("engine", "tlc+replay"),
        "level_claimed": {"category": "model_checking", "text": pl["level_text"], "design_ref": pl.get("design_ref", "DESIGN.md section 5, " + pid)},
        "level_note": pl["level_note"],
        "technique": pl["technique"],
    })
na = [{"property_id": p["id"], "reason": META["not_yet"].get(p["id"], "check not built yet (planned: TLA+ model + conformance replay, DESIGN.md section 5)")}
      for p in props if p["id"] not in {c["property_id"] for c in checks}]
m = {
    "version": 1,
    "setup_cmd": "./setup.sh",
    "hooks": {"guard": META["guard"], "enable": META["enable"], "baseline_off_cmd": "cd /repo && cargo test --workspace --no-fail-fast --offline",
              "source_commits": hooks_commits, "add_only": True},
    "engines": META["engines"],
    "checks": checks,
    "notes": META["notes"],
    "not_applicable": na,
}
json.dump(m, open(os.path.join(ROOT, "MANIFEST.json"), "w"), indent=1)
print("MANIFEST.json: %d checks, %d not claimed" % (len(checks), len(na)))
