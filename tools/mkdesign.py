#!/usr/bin/env python3
"""Regenerate the generated parts of DESIGN.md (between BEGIN/END markers): the seeded-change table (0.6, from
seeded/*/meta.json) and the per-check plan listing (0.7, from tools/plans.py)."""
import io, os, re, sys, contextlib
ROOT = os.path.dirname(os.path.dirname(os.path.abspath(__file__)))
sys.path.insert(0, os.path.join(ROOT, "tools"))
from plans import PLANS
import seeded


def step_text(st):
    t = st["type"]
    if t == "trace":
        if st["driver"] == "pscalar":
            return "driver `pscalar`, %d events → %s" % (st["n"], st.get("module", "TraceFlat"))
        return "driver `%s` over %d types, %d events → %s" % (st["driver"], len(st["types"]), st["n"], st.get("module", "TraceFlat"))
    if t == "apalache":
        return "Apalache inductive invariant %s (%d obligations)" % (st["module"], len(st["obligations"]))
    if t == "tlaps":
        return "TLAPS proof %s" % st["module"]
    if t == "negative":
        return "negative catalog (compile-fail)"
    name = "%s/%s" % (st["module"], os.path.splitext(st["cfg"])[0])
    if t == "tlc-only":
        return name + " (TLC only: liveness/envelope)"
    return name + (" + recorded-run trace validation" if st.get("io_traces") else "")


def plans_text():
    out = []
    for pid in sorted(PLANS):
        q = [step_text(s) for s in PLANS[pid]["quick"]]
        th = [step_text(s) for s in PLANS[pid]["thorough"]]
        out.append("* **%s** quick: %s." % (pid, "; ".join(q)))
        extra = [x for x in th if x not in q]
        if extra:
            out.append("  thorough instead / in addition: %s." % "; ".join(extra))
    return "\n".join(out)


def seeded_text():
    buf = io.StringIO()
    with contextlib.redirect_stdout(buf):
        seeded.table()
    return buf.getvalue().rstrip("\n")


def benign_text():
    import benign
    buf = io.StringIO()
    with contextlib.redirect_stdout(buf):
        benign.table()
    return buf.getvalue().rstrip("\n")


def main():
    p = os.path.join(ROOT, "DESIGN.md")
    s = open(p).read()
    for tag, txt in (("SEEDED", seeded_text()), ("BENIGN", benign_text()), ("PLANS", plans_text())):
        pat = re.compile(r"(<!-- BEGIN:%s -->\n).*?(\n<!-- END:%s -->)" % (tag, tag), re.S)
        if not pat.search(s):
            print("marker %s not found" % tag)
            continue
        s = pat.sub(lambda m: m.group(1) + txt + m.group(2), s)
    open(p, "w").write(s)
    print("DESIGN.md regenerated parts written")


if __name__ == "__main__":
    main()
