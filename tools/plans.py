"""Per-property plans: which TLC models produce the cases, what makes a case non-trivial."""

CODEC_ASSUME = [
    "host: x86-64, little-endian, align_of::<u128>() = 16",
    "type shapes: the catalog of spec/Catalog.tla; values: representative trees of spec/FlatValues.tla",
    "the reference semantics of the format is spec/FlatCodec.tla (our formalisation of the documented format)",
    "out-of-bounds reads are observable only when they cross the guard page next to the slice",
]

TECH = "TLC model checking of an explicit TLA+ specification + replay of TLC-generated cases into the Rust library"

def codec(prop, rule, must, quick_cfg="MCCodec_quick.cfg", thorough_cfg="MCCodec_thorough.cfg"):
    return {
        "technique": TECH,
        "level_text": "The byte-level semantics of the flat format is an explicit TLA+ specification (spec/FlatTypes, FlatLayout, FlatCodec, FlatValues). "
                      "TLC checks the format's theorems (RoundTrip, SizeSufficient, Framing, Consistent, Misaligned) in every state of MCCodec, which enumerates, "
                      "for every catalog type, all valid images of representative trees, every cut, extension, header-field substitution, misalignment and all "
                      "byte strings over a boundary alphabet; every explored state is printed as a case with the reference answer and replayed into the real "
                      "validate / from_bytes / from_mut_bytes / size() / accessors inside guard-paged memory. Exhaustive within the stated bounds, not a proof for all inputs.",
        "level_note": "Trusted: TLC, the transcription of the documented format into spec/FlatCodec.tla, the harness (harness/src/{shape,replay,mem}.rs) and gen.py. "
                      "Bounds: catalog of spec/Catalog.tla, value/length bounds of the .cfg, host x86-64 little-endian.",
        "quick": [{"type": "tlc-replay", "module": "MCCodec", "cfg": quick_cfg}],
        "thorough": [{"type": "tlc-replay", "module": "MCCodec", "cfg": thorough_cfg}],
        "rule": rule, "must_exercise": must, "assumptions": CODEC_ASSUME, "exhaustive": True,
    }

PLANS = {
    "C01": codec("C01", "one case per distinct TLC state of MCCodec (type, address offset, byte string): valid images, all cuts, extensions, "
                 "header-field substitutions, misaligned placements, all strings over the boundary alphabet; each replayed into validate / "
                 "from_bytes (+ accessor walk) / from_mut_bytes at both guard-page placements; non-trivial = every case except the unmodified valid images",
                 ["dec.cut.*", "dec.sub.*", "dec.raw.*", "dec.mis.align", "dec.ext.valid"]),
    "C02": codec("C02", "same cases as C01; acceptance compared with the reference decoder, and on acceptance the accessor walk (inside the slice, "
                 "len <= capacity, own bytes validate, content = reference decoding); non-trivial = cases that are not unmodified valid images",
                 ["dec.*.valid", "dec.*.size", "dec.*.content", "dec.mis.align"]),
    "C05": codec("C05", "cases the reference decoder accepts: size() compared with the reference extent, against the slice length, and the first size() bytes mapped again; "
                 "non-trivial = accepted cases of unsized types", ["dec.base.valid", "dec.cut.valid", "dec.sub.valid"]),
    "C06": codec("C06", "every cut position of every valid image and every suffix; non-trivial = proper prefixes and extensions of messages of unsized types",
                 ["dec.cut.size", "dec.ext.valid"]),
    "C19": codec("C19", "valid images with exactly one constrained byte (Bool, enum tag, UTF-8 byte) replaced; non-trivial = those for which the reference decoder reports a content error at that field",
                 ["c19.applies"]),
}

META = {
    "guard": "cargo feature `verif` of flatty-io (io hooks; not yet committed)",
    "enable": "the harness depends on /repo by path; io hooks: flatty-io with features = [\"verif\"]",
    "hook_commits": [],
    "engines": [
        {"name": "tlc", "path": "/verif/spec", "serves_properties": sorted(PLANS), "kind_free_text": "explicit TLA+ specification of the flat format, checked with TLC; prints one replayable case per explored state"},
        {"name": "harness", "path": "/verif/harness", "serves_properties": sorted(PLANS), "kind_free_text": "Rust replayer built against /repo's working tree: replays TLC's cases into the real API inside guard-paged memory and judges each property's projection"},
    ],
    "notes": "Model-based verification with an explicit TLA+ specification (DESIGN.md). ./check <ID> quick|thorough; exit 2 = tool error. Known findings: KNOWN_FINDINGS.txt.",
    "not_yet": {},
}
