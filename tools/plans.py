"""Per-property plans: which TLC models produce the cases, what makes a case non-trivial."""

CODEC_ASSUME = [
    "host: x86-64, little-endian, align_of::<u128>() = 16",
    "type shapes: the catalog of spec/Catalog.tla; values: representative trees of spec/FlatValues.tla",
    "the reference semantics of the format is spec/FlatCodec.tla (our formalisation of the documented format)",
    "out-of-bounds reads are observable only when they cross the guard page next to the slice",
]

TECH = "TLC model checking of an explicit TLA+ specification + replay of TLC-generated cases into the Rust library"

def codec(prop, rule, must, quick_cfg="MCCodec_quick.cfg", thorough_cfg="MCCodec_thorough.cfg"):
    return {
        "technique": TECH,
        "level_text": "The byte-level semantics of the flat format is an explicit TLA+ specification (spec/FlatTypes, FlatLayout, FlatCodec, FlatValues). "
                      "TLC checks the format's theorems (RoundTrip, SizeSufficient, Framing, Consistent, Misaligned) in every state of MCCodec, which enumerates, "
                      "for every catalog type, all valid images of representative trees, every cut, extension, header-field substitution, misalignment and all "
                      "byte strings over a boundary alphabet; every explored state is printed as a case with the reference answer and replayed into the real "
                      "validate / from_bytes / from_mut_bytes / size() / accessors inside guard-paged memory. Exhaustive within the stated bounds, not a proof for all inputs.",
        "level_note": "Trusted: TLC, the transcription of the documented format into spec/FlatCodec.tla, the harness (harness/src/{shape,replay,mem}.rs) and gen.py. "
                      "Bounds: catalog of spec/Catalog.tla, value/length bounds of the .cfg, host x86-64 little-endian.",
        "quick": [{"type": "tlc-replay", "module": "MCCodec", "cfg": quick_cfg}],
        "thorough": [{"type": "tlc-replay", "module": "MCCodec", "cfg": thorough_cfg}],
        "rule": rule, "must_exercise": must, "assumptions": CODEC_ASSUME, "exhaustive": True,
    }

PLANS = {
    "C01": codec("C01", "one case per distinct TLC state of MCCodec (type, address offset, byte string): valid images, all cuts, extensions, "
                 "header-field substitutions, misaligned placements, all strings over the boundary alphabet; each replayed into validate / "
                 "from_bytes (+ accessor walk) / from_mut_bytes at both guard-page placements; non-trivial = every case except the unmodified valid images",
                 ["dec.cut.*", "dec.sub.*", "dec.raw.*", "dec.mis.align", "dec.ext.valid"]),
    "C02": codec("C02", "same cases as C01; acceptance compared with the reference decoder, and on acceptance the accessor walk (inside the slice, "
                 "len <= capacity, own bytes validate, content = reference decoding); non-trivial = cases that are not unmodified valid images",
                 ["dec.*.valid", "dec.*.size", "dec.*.content", "dec.mis.align"]),
    "C05": codec("C05", "cases the reference decoder accepts: size() compared with the reference extent, against the slice length, and the first size() bytes mapped again; "
                 "non-trivial = accepted cases of unsized types", ["dec.base.valid", "dec.cut.valid", "dec.sub.valid"]),
    "C06": codec("C06", "every cut position of every valid image and every suffix; non-trivial = proper prefixes and extensions of messages of unsized types",
                 ["dec.cut.size", "dec.ext.valid"]),
    "C19": codec("C19", "valid images with exactly one constrained byte (Bool, enum tag, UTF-8 byte) replaced; non-trivial = those for which the reference decoder reports a content error at that field",
                 ["c19.applies"]),
}

MEM_ASSUME = CODEC_ASSUME + [
    "initial states: every valid image of the bounded tree universe (so externally produced images are included); histories are covered by induction over single transitions because the state of a flat value is its byte image",
    "documented panics (remove/swap_remove out of range, resize beyond capacity) are not generated",
]

def mem(prop, cfgs, rule, must, extra_quick=(), extra_thorough=()):
    def steps(tier):
        return [{"type": "tlc-replay", "module": "MCMem", "cfg": "MCMem_%s_%s.cfg" % (c, tier)} for c in cfgs]
    return {
        "technique": TECH,
        "level_text": "FlatMem (spec/FlatOps.tla, MCMem.tla) is the state machine 'a flat value in a buffer': the state is the layout-annotated tree (its byte image is Enc), "
                      "the actions are the API operations at every node (stavec operations of FlatVec/FlatString, FlexVec push/pop/truncate/clear, item edits, assign_in_place, field writes). "
                      "TLC explores every reachable state from every valid image of the bounded universe, checks RoundTrip / SizeSufficient / len<=cap / chain shape in each, and prints every "
                      "generated transition (pre-image, path, operation, result, post tree, size, FIXED/ANY/SAME mask); each is replayed from its pre-image under three fills of the undetermined bytes "
                      "into the real library in guarded memory and compared through this property's projection.",
        "level_note": "Trusted: TLC, spec/FlatOps.tla as the meaning of the operations, harness. Bounds: the types and lengths of the MCMem_*.cfg files; element/argument alphabets of spec/FlatValues.tla.",
        "quick": list(extra_quick) + steps("quick"),
        "thorough": list(extra_thorough) + steps("thorough"),
        "rule": rule, "must_exercise": must, "assumptions": MEM_ASSUME, "exhaustive": True,
    }

PLANS.update({
    "C11": mem("C11", ["vec", "comp"], "one case per generated transition of MCMem whose target node is a FlatVec / FlatString (top level, struct tail, enum payload, FlexVec item); "
               "x3 fills; compared: result, returned element, len/capacity/contents, remaining, size(), ==, validate, re-map, determined bytes; non-trivial = all of them",
               ["op.vec.push.ok", "op.vec.push.refused", "op.vec.pop.*", "op.vec.push_slice.refused", "op.vec.remove.ok", "op.vec.swap_remove.ok", "op.vec.resize.ok", "op.vec.set.ok", "op.vec.extend.ok", "op.vec.truncate.ok", "op.str.push.ok", "op.str.push_str.refused", "op.str.clear.ok"]),
    "C12": mem("C12", ["flex", "comp", "big"], "one case per generated transition whose target is a FlexVec or lies inside a FlexVec item (item edits); compared: result, len(), is_empty(), items in order with contents and capacities, validate, re-map, determined bytes",
               ["op.flex.push.ok", "op.flex.push.refused", "op.flex.pop.ok", "op.flex.pop.refused", "op.flex.truncate.ok", "op.flex.clear.ok", "op.flex.push_default.*"]),
    "C13": mem("C13", ["follow", "big"], "refused push / push_slice / push_str / FlexVec push (every way of not fitting the bounded universe offers) and, after each, every operation enabled on the same node as a follow-up compared with the model's successor from the unchanged state",
               ["op.vec.push.refused", "op.vec.push_slice.refused", "op.str.push_str.refused", "op.flex.push.refused", "op.*.refused.follow"]),
    "C14": mem("C14", ["vec", "flex", "comp"], "every generated transition (successful and refused): canary bytes on both sides of the slice and every byte outside the node being changed (SAME positions of the mask) compared before/after",
               ["op.vec.*", "op.flex.*", "op.*.assign.*", "op.*.set.ok"]),
    "C18": mem("C18", ["comp", "flex"], "assign_in_place transitions that fail (variant room, nested container too small); after the failure: validate(as_bytes()), deep read, size(), a second assignment; unchanged content where the failure is the static room check",
               ["op.*.assign.refused", "op.*.assign.ok"]),
})
def emp(prop, rule, must):
    return {
        "technique": TECH,
        "level_text": "MCEmplace (spec/FlatOps.tla: Build, DefaultContent) states what new_in_place / default_in_place must answer for every catalog type, every content of the bounded universe and the default state, "
                      "every single slice length from 0 to beyond the needed size and every address offset (three-valued: ok / err(kinds) / either), and the image they must produce; TLC checks that every accepted "
                      "emplacement is a valid, round-tripping, size-sufficient value, that acceptance is monotone in the length, that the default state is minimal and that portable images have no undetermined byte; "
                      "each state is replayed with the library's own emplacers (values, generated *Init, FromIterator, FromArray, FromStr, flex::FromIterator, Empty, FlatWrap) on three garbage fills.",
        "level_note": "Trusted: TLC, Build in spec/FlatOps.tla as the meaning of emplacement, harness. Bounds: catalog, contents of the generous-slice tree universe (ContentMax per type), lengths 0..needed+ALIGN+1.",
        "quick": [{"type": "tlc-replay", "module": "MCEmplace", "cfg": "MCEmplace_quick.cfg"}],
        "thorough": [{"type": "tlc-replay", "module": "MCEmplace", "cfg": "MCEmplace_thorough.cfg"}],
        "rule": rule, "must_exercise": must, "assumptions": CODEC_ASSUME, "exhaustive": True,
    }

PLANS.update({
    "C03": emp("C03", "one case per (type, content, slice length, address offset) x 3 garbage fills x emplacer flavour; non-trivial = cases where the content fits (must be accepted, read back, validate, determined bytes equal the reference image)",
               ["emp.new.ok"]),
    "C15": emp("C15", "same cases; every single length 0..needed+ALIGN+1 and misaligned placements; non-trivial = all (each has a definite expectation: ok, err with kind set, or either)",
               ["emp.new.ok", "emp.new.err", "emp.new.err.misaligned", "emp.default.ok", "emp.default.err"]),
    "C20": emp("C20", "default_in_place cases of every type with default = true / a Default impl / container defaults, every length >= needed, 3 prior contents; compared: deep read = documented default, validate, minimal size(), independence of the prior contents, equality with Default::default() for sized types",
               ["emp.default.ok"]),
    "C17": emp("C17", "cases of portable catalog types (portable structs / enums, containers of portable items with portable length types) at every address offset 0..3: ALIGN = 1, emplacement succeeds at odd addresses, bytes equal the reference serialisation",
               ["emp.new.ok.misaligned"]),
})
PLANS["C17"]["quick"].append({"type": "negative", "only_portable": True})
PLANS["C17"]["thorough"].append({"type": "negative", "only_portable": True})
PLANS["C17"]["must_exercise"].append("neg.case")
PLANS["C17"]["rule"] += "; plus the negative catalog (portable definitions with a non-portable field in first / last position, native length types): each must be rejected at compile time"
PLANS["C17"]["quick"].append({"type": "tlc-replay", "module": "MCMem", "cfg": "MCMem_port_quick.cfg"})
PLANS["C17"]["thorough"].append({"type": "tlc-replay", "module": "MCMem", "cfg": "MCMem_port_thorough.cfg"})
PLANS["C17"]["rule"] += "; plus every generated transition of MCMem on the portable container / composite types (push, pop, truncate, assign ...): bytes equal the reference serialisation, size() the reference extent"
PLANS["C17"]["must_exercise"].append("op.flex.push.ok")
PLANS["C14"]["quick"].append({"type": "tlc-replay", "module": "MCEmplace", "cfg": "MCEmplace_quick.cfg"})
PLANS["C14"]["thorough"].append({"type": "tlc-replay", "module": "MCEmplace", "cfg": "MCEmplace_thorough.cfg"})
PLANS["C14"]["must_exercise"].append("emp.new.*")

PLANS["C05"]["quick"] += [{"type": "tlc-replay", "module": "MCMem", "cfg": "MCMem_flex_quick.cfg"}, {"type": "tlc-replay", "module": "MCMem", "cfg": "MCMem_comp_quick.cfg"}]
PLANS["C05"]["thorough"] += [{"type": "tlc-replay", "module": "MCMem", "cfg": "MCMem_flex_thorough.cfg"}, {"type": "tlc-replay", "module": "MCMem", "cfg": "MCMem_comp_thorough.cfg"}]
PLANS["C05"]["rule"] += "; plus every generated transition of MCMem (flex, composite configurations): size() after the operation, and the first size() bytes mapped again"
PLANS["C04"] = {
    "technique": TECH,
    "level_text": "spec/FlatLayout.tla is the reference C layout and the view rule; TLC checks LayoutSane / ViewInside / PortablePacked for every catalog type and slice length and prints, per (type, length, variant), "
                  "the reference facts and a valid image; the generated Rust definitions (the #[flat] macro applied to the same descriptors) are probed: ALIGN, MIN_SIZE, align_of_val, size_of_val, as_bytes().len(), "
                  "and the addresses of everything the accessors hand out (fields, payload fields, container data, capacities), compared three-way (library = compiler = reference).",
    "level_note": "Trusted: TLC, the C layout rule as written in FlatLayout.tla, gen.py. Bounds: the catalog (every kind, alignments 1..16, tag widths 1/2/4) and slice lengths MIN_SIZE..MIN_SIZE+3*ALIGN+2; host target only.",
    "quick": [{"type": "tlc-replay", "module": "MCLayout", "cfg": "MCLayout.cfg"}],
    "thorough": [{"type": "tlc-replay", "module": "MCLayout", "cfg": "MCLayout.cfg"}],
    "rule": "one case per (catalog type, slice length, representative tree per variant): constants, view size and accessor addresses compared with the reference layout; non-trivial = all (each is a distinct program/length/variant)",
    "must_exercise": ["layout.case", "layout.unsized"], "assumptions": CODEC_ASSUME, "exhaustive": True,
}

PLANS["C16"] = {
    "technique": TECH,
    "level_text": "spec/Portable.tla defines the portable scalars on little-endian digit sequences: stored image (byte order), comparison, add/sub/neg with overflow flag, zero/one/min/max and the range-checked conversions to and from u64/i64/usize; "
                  "TLC checks round trip, be = reverse of le, totality/antisymmetry of the order, add/sub inverse, negation and min/max theorems on the enumerated values and prints one vector per state "
                  "(all 16 types: boundary values, every Stride-th 16-bit value, boundary x boundary pairs, all 256 bytes for Bool). Each vector is replayed against flatty::portable; where TLC cannot compute the expectation "
                  "(mul/div/rem, float ordering and arithmetic) the vector says NATIVE and the native operation on the same operands is the oracle, a native panic having to be mirrored.",
    "level_note": "Trusted: TLC, spec/Portable.tla, harness/src/portable.rs, and for NATIVE entries the native Rust operators. Bounds: boundary sets for 32/64-bit types (not exhaustive), Stride for 16-bit types (1 in the thorough tier = all 65536 values), no from_str_radix / Display / serde.",
    "quick": [{"type": "tlc-replay", "module": "MCPortable", "cfg": "MCPortable_quick.cfg"}],
    "thorough": [{"type": "tlc-replay", "module": "MCPortable", "cfg": "MCPortable_thorough.cfg"}],
    "rule": "one vector per distinct TLC state: (type, value) unary vectors, (type, a, b) binary vectors, constants, Bool bytes; non-trivial = all",
    "must_exercise": ["pscalar.unary.int", "pscalar.unary.float", "pscalar.binary.int", "pscalar.binary.float", "pscalar.consts.*", "pscalar.bool.bool"],
    "assumptions": ["host x86-64 little-endian; build profile with overflow checks on (a native overflow panics and must be mirrored)"],
    "exhaustive": True,
}

# ---- the sweep families (systematic field-alignment permutations), small value sets ---------------------
for pid in ("C01", "C02", "C05", "C06"):
    for tier in ("quick", "thorough"):
        PLANS[pid][tier].append({"type": "tlc-replay", "module": "MCCodec", "cfg": "MCCodec_sweep.cfg"})
for pid in ("C03", "C15", "C14", "C20", "C05"):
    for tier in ("quick", "thorough"):
        PLANS[pid][tier].append({"type": "tlc-replay", "module": "MCEmplace", "cfg": "MCEmplace_sweep.cfg"})
PLANS["C05"]["quick"].append({"type": "tlc-replay", "module": "MCEmplace", "cfg": "MCEmplace_quick.cfg"})
PLANS["C05"]["thorough"].append({"type": "tlc-replay", "module": "MCEmplace", "cfg": "MCEmplace_thorough.cfg"})
PLANS["C05"]["rule"] += "; plus every accepted emplacement of MCEmplace (constructed values): size() inside the slice and sufficient"

# ---- impl -> spec: seeded drivers + TLC trace validation (spec/TraceFlat.tla) -------------------------
VEC_T = ["V_u16_u64", "S_u64", "V_u8_u8", "V_u8_u16", "V_u8_u32", "V_u32_u8", "V_u64_u32", "V_u128_u8", "V_bool_u8", "V_ss3_u16", "V_i32_u16", "V_lei32_leu16", "V_u16_beu32", "V_ss5_u16", "V_se1_u8",
         "S_u8", "S_u16", "S_u32", "S_leu16", "US1", "US2", "US3", "US6", "US7", "US8", "US9", "US10"]
FLEX_T = ["X_u8_u64", "X_u8_u8", "X_u32_u8", "X_bool_u16", "X_vu8_u8", "X_vi32_u16", "X_s8_u16", "X_vu8le_le", "X_x_u8", "X_us2_u16", "X_ue1_u8", "X_unit_u16", "US4", "UE8"]
# (UE14 is left to the exhaustive model: it exhibits known finding #18, and a trace is judged only up to its first rejected event)
COMP_T = ["US1", "US2", "US3", "US4", "US5", "US6", "US7", "US8", "US9", "US10", "US11", "UE1", "UE2", "UE3", "UE4", "UE5", "UE6", "UE7", "UE8", "UE9", "UE10", "UE11", "UE12", "UE13", "UE15", "UE16", "PE1", "GU1", "GU2", "GX1", "GX2", "GP1", "GP2", "US12", "US13", "US14"]
SIZED_T = ["bool", "arr_bool3", "SS1", "SS2", "SS3", "SS4", "SS5", "SS6", "SE1", "SE2", "SE3", "SE4", "SE5", "le_u16", "be_u32", "GS1", "GS2", "GE1", "GE2", "arr_unit_2", "arr_ss3_2", "arr_se1_2", "SS8"]
ALL_T = sorted(set(VEC_T + FLEX_T + COMP_T + SIZED_T))

def trace(driver, types, nq, nt, steps=40):
    return ({"type": "trace", "driver": driver, "types": types, "n": nq, "steps": steps},
            {"type": "trace", "driver": driver, "types": types, "n": nt, "steps": 3 * steps})

TRACE_NOTE = "; plus the implementation -> specification direction (judged under this property's projection of spec/TraceFlat.tla only): a seeded driver (full byte range, longer buffers, random contents / histories) records one event per call and TLC accepts the trace iff every event is a step of the specification (spec/TraceFlat.tla)"
for pid, (drv, types, nq, nt) in {
    "C01": ("dec", ALL_T, 6000, 60000), "C02": ("dec", ALL_T, 6000, 60000), "C05": ("dec", ALL_T, 6000, 60000), "C06": ("dec", ALL_T, 6000, 60000),
    "C03": ("emp", ALL_T, 6000, 60000), "C15": ("emp", ALL_T, 6000, 60000), "C20": ("dflt", ALL_T, 4000, 40000),
    "C11": ("ops", VEC_T, 4000, 40000), "C12": ("ops", FLEX_T, 4000, 40000), "C13": ("ops", VEC_T + FLEX_T, 4000, 40000),
    "C14": ("ops", ALL_T[:0] + VEC_T + FLEX_T + COMP_T, 4000, 40000), "C18": ("ops", COMP_T, 3000, 30000),
}.items():
    q, t = trace(drv, types, nq, nt)
    PLANS[pid]["quick"].append(q)
    PLANS[pid]["thorough"].append(t)
    PLANS[pid]["rule"] += TRACE_NOTE
    PLANS[pid]["technique"] = TECH + "; TLC trace validation of recorded executions"
    PLANS[pid]["must_exercise"].append("trace.%s.events" % drv)

# portable scalars, implementation -> specification: values of the full 16/32/64-bit range, judged by the digit arithmetic
PLANS["C16"]["quick"].append({"type": "trace", "driver": "pscalar", "types": ["-"], "n": 20000, "module": "TracePortable"})
PLANS["C16"]["thorough"].append({"type": "trace", "driver": "pscalar", "types": ["-"], "n": 400000, "module": "TracePortable"})
PLANS["C16"]["rule"] += "; plus the implementation -> specification direction: a seeded driver draws operands of the full width for every integer type, records stored image, comparison, add/sub/neg and the conversions, and TLC accepts the trace iff every result is the one the digit arithmetic gives (spec/TracePortable.tla)"
PLANS["C16"]["technique"] = TECH + "; TLC trace validation of recorded executions"
PLANS["C16"]["must_exercise"].append("trace.pscalar.events")

# ---- IO ------------------------------------------------------------------------------------------------
IO_BASE = """CONSTANTS
  NV = 2
  MaxLen = 5
  MaxItems = 2
  ArgVals = 1
  AssignMax = 4
"""

ERRKINDS = '{"Other", "Interrupted", "WouldBlock", "ConnectionReset", "TimedOut"}'

def io_recv_cfg(msg, nmsgs, chunk, faults, policy, record, arbitrary=False, rawlen=0, live=False, cap=1000, retain=0):
    name = "MCIoRecv_%s_n%d_c%d_f%d_%s%s%s%s.cfg" % (msg, nmsgs, chunk, faults, policy, "_arb%d" % rawlen if arbitrary else "", "_capx%d" % cap if cap < 1000 else "", "_live" if live else "")
    name = name.replace(".cfg", ("_rt%d" % retain if retain else "") + ".cfg")
    txt = "SPECIFICATION %s\n" % ("SpecP" if record else "Spec") + IO_BASE + ("  RetainMax = %d\n" % retain) + """  MsgId = "%s"
  NMsgs = %d
  RawLen = %d
  RawAlphabet = {0, 1, 2, 3, 4, 255}
  Arbitrary = %s
  MsgT <- MT
  Streams <- MCStreams
  MaxMsgLen <- MML
  CapExtra = %d
  ChunkMax = %d
  FaultMax = %d
  Policy = "%s"
  ErrKinds = %s
  Record = %s
""" % (msg, nmsgs, rawlen, "TRUE" if arbitrary else "FALSE", cap, chunk, faults, policy, ERRKINDS if record else '{"Other"}', "TRUE" if record else "FALSE")
    if record:
        txt += "VIEW View\n"
    txt += "INVARIANTS WindowInv HeadInv GuardInside BoundedCalls DeliveredInOrder ClosedMeansAll ParseNotStarve\n"
    if live:
        txt += "INVARIANT WindowIndInv\nPROPERTY Terminates RefinesWindow\n"
    txt += "CHECK_DEADLOCK FALSE\n"
    return {"type": "tlc-only" if not record else "tlc-replay", "module": "MCIoRecv", "cfg": name, "cfg_text": txt, "io_traces": record, "io_traces_limit": 300}

def io_send_cfg(msg, nmsgs, chunk, faults, retry, record, live=False, abandon=1):
    name = "MCIoSend_%s_n%d_c%d_f%d_r%d%s%s.cfg" % (msg, nmsgs, chunk, faults, retry, "_a%d" % abandon if abandon else "", "_live" if live else "")
    txt = "SPECIFICATION %s\n" % ("SpecP" if record else "Spec") + IO_BASE + """  MsgId = "%s"
  NMsgs = %d
  MsgT <- MT
  Msgs <- MCMsgs
  ChunkMax = %d
  FaultMax = %d
  Retry = %d
  AbandonMax = %d
  ErrKinds = %s
  Record = %s
""" % (msg, nmsgs, chunk, faults, retry, abandon, ERRKINDS if record else '{"Other"}', "TRUE" if record else "FALSE")
    if record:
        txt += "VIEW View\n"
    txt += "INVARIANTS SinkFramed BoundedCalls PoisonedStops\nPROPERTY AbandonSilent\n"
    if live:
        txt += "PROPERTY Terminates\n"
    txt += "CHECK_DEADLOCK FALSE\n"
    return {"type": "tlc-only" if not record else "tlc-replay", "module": "MCIoSend", "cfg": name, "cfg_text": txt, "io_traces": record, "io_traces_limit": 300}

def io_async_cfg(msg, nmsgs, pipecap, chunk, spur, record, live=False, cancel=0):
    name = "MCIoAsync_%s_n%d_p%d_c%d_s%d%s%s.cfg" % (msg, nmsgs, pipecap, chunk, spur, "_x%d" % cancel if cancel else "", "_live" if live else "")
    txt = "SPECIFICATION %s\n" % ("SpecP" if record else "Spec") + IO_BASE + """  MsgId = "%s"
  NMsgs = %d
  MsgT <- MT
  Msgs <- MCMsgs
  MaxMsgLen <- MML
  PipeCap = %d
  ChunkMax = %d
  SpurMax = %d
  CancelMax = %d
  Record = %s
""" % (msg, nmsgs, pipecap, chunk, spur, cancel, "TRUE" if record else "FALSE")
    if record:
        txt += "VIEW View\n"
    txt += "INVARIANTS WindowInv HeadInv GuardInside DeliveredInOrder ConsumedWhole ClosedMeansAll FlushBeforeDone PipeBounded\n"
    if live:
        txt += "PROPERTY Terminates\n"
    txt += "CHECK_DEADLOCK FALSE\n"
    return {"type": "tlc-only" if not record else "tlc-replay", "module": "MCIoAsync", "cfg": name, "cfg_text": txt}

IO_ASSUME = [
    "host: x86-64 little-endian; message types and contents from the catalog; streams built by the reference encoder",
    "the environment is a script of pipe outcomes; Data(n) means 'up to n bytes'; thread interleavings over a byte pipe are equivalent to chunkings (as the property states)",
    "the path of every generated transition of the code-policy instance is replayed; the returns after the last scripted pipe call are judged by the paths that contain them",
]
IO_NOTE = ("Trusted: TLC, spec/IoRecv.tla + IoSend.tla (+ the codec specification they import for Validate/Size), the scripted pipes of harness/src/io.rs. "
           "Bounds: message types/sets, ChunkMax, fault budget of the generated configurations.")

def io_plan(level_text, rule, must, quick, thorough):
    return {"technique": TECH + "; recorded window traces validated against the specification", "level_text": level_text, "level_note": IO_NOTE,
            "quick": quick, "thorough": thorough, "rule": rule, "must_exercise": must, "assumptions": IO_ASSUME, "exhaustive": True}

IO_TEXT = ("IoRecv / IoSend are explicit TLA+ state machines of the framed IO algorithms, one action per pipe call or window mutation, whose Validate and Size are the codec specification's. "
           "TLC checks WindowInv, HeadInv (nothing lost/duplicated/reordered by compaction), GuardInside, DeliveredInOrder, ClosedMeansAll, BoundedCalls, ParseNotStarve, SinkFramed, PoisonedStops in every state for every chunking / fault placement, "
           "and termination under fairness on the permissive (any-policy) instance; the code-policy instance prints the environment script of every generated transition, which is replayed into the real blocking Sender / Receiver over scripted pipes (and the async ones over pipes that never, or once per call, answer Pending). "
           "RecvGuard::retain and early end-of-stream are actions of the receiver, a SendGuard dropped without send() (Abandon: no pipe call, nothing in the sink, the next message unaffected) is an action of the sender; IoRecv is checked to refine the integer window machine IoWindow, whose invariant Apalache shows inductive for every capacity. "
           "In the other direction every replayed run of the real receiver and sender is recorded (window hooks of the cargo feature `verif`, pipe calls with the bytes offered / delivered, returns) and TLC validates the records against TraceIoRecv / TraceIoSend.")

PLANS.update({
    "C07": io_plan(IO_TEXT, "one path per generated transition of the fault-free receiver and sender models (every composition of the stream into read / write chunk sizes up to ChunkMax, message sets rotated so every message is first/middle/last); non-trivial = all",
                   ["iorecv.valid.*", "iosend.*", "iosend.abandon"],
                   [io_recv_cfg("UE6", 3, 24, 0, "any", False, live=True), io_send_cfg("UE6", 3, 12, 0, 0, False, live=True)]
                   + [io_recv_cfg(m, n, c, 0, "code", True) for m, n, c in [("UE6", 3, 24), ("US2", 2, 16), ("V_u8_u32", 2, 16), ("X_vu8_u8", 2, 8)]]
                   + [io_recv_cfg("UE6", 3, 12, 0, "code", True, cap=c) for c in (0, 4, 12)]      # capacities down to the largest message
                   + [io_recv_cfg("US2", 3, 12, 0, "code", True, cap=0)]
                   + [io_recv_cfg("UE6", 3, 12, 0, "code", True, cap=4, retain=1), io_recv_cfg("UE6", 3, 24, 0, "any", False, live=True, retain=2)]   # RecvGuard::retain
                   + [io_recv_cfg(m, 2, 16, 0, "code", True) for m in ("UE11", "UE10", "UE2")]       # variants with odd payloads / interior padding
                   + [io_recv_cfg("US3", 2, 8, 0, "code", True)]                                     # a string message: reads that end inside a multi-byte character
                   + [io_send_cfg(m, 3, 12, 0, 0, True) for m in ["UE6", "US2", "X_vu8_u8", "UE11"]],
                   [io_recv_cfg("UE6", 3, 24, 0, "any", False, live=True), io_send_cfg("UE6", 3, 12, 0, 0, False, live=True)]
                   + [io_recv_cfg(m, n, c, 0, "code", True) for m, n, c in [("UE6", 4, 24), ("US2", 3, 16), ("US1", 2, 48), ("V_u8_u32", 3, 16), ("X_vu8_u8", 3, 8), ("UE1", 3, 16), ("SS1", 2, 48)]]
                   + [io_send_cfg(m, 3, 16, 0, 0, True) for m in ["UE6", "US2", "US1", "X_vu8_u8", "UE1", "V_u8_u32"]]),
    "C09": io_plan(IO_TEXT, "paths of the receiver model with injected transient read errors / end of stream at every call, and of the sender model with write errors, zero-length writes (transient and persistent) at every call; non-trivial = paths containing at least one fault",
                   ["iorecv.valid.*.faults", "iosend.*.faults", "iosend.abandon"],
                   [io_recv_cfg("UE6", 2, 8, 1, "any", False, live=True), io_send_cfg("UE6", 3, 12, 2, 1, False, live=True)]
                   + [io_recv_cfg(m, 2, 8, 1, "code", True) for m in ["UE6", "US2"]]
                   + [io_send_cfg(m, 3, 12, 2, 0, True) for m in ["UE6", "US2", "X_vu8_u8"]],
                   [io_recv_cfg("UE6", 2, 8, 2, "any", False, live=True), io_send_cfg("UE6", 3, 12, 2, 1, False, live=True)]
                   + [io_recv_cfg(m, 3, 8, 2, "code", True) for m in ["UE6", "US2", "X_vu8_u8", "V_u8_u32"]]
                   + [io_send_cfg(m, 3, 12, 3, 0, True) for m in ["UE6", "US2", "X_vu8_u8", "UE1"]]),
    "C08": io_plan("IoAsync composes the async sender task (WriteAll: pos persists across polls, flush after the last write), the receiver task and a bounded in-memory pipe under a single-threaded executor: "
                   "PollBegin hands the thread to a task, which takes one micro-step per pipe call until a call answers Pending (pipe full / empty, or spuriously within a budget) or the task completes. "
                   "TLC checks conservation (receiver window ++ pipe = sent stream), WindowInv, GuardInside, DeliveredInOrder, ConsumedWhole, ClosedMeansAll, FlushBeforeDone in every state of every schedule, "
                   "and completion of both futures under fair polling; every finished poll prints its path (schedule, chunk limits, spurious Pendings), replayed with a hand-driven poller against the real async Sender/Receiver; "
                   "after the path both tasks are polled fairly and must complete.",
                   "one path per finished poll of the model: every interleaving of polls of the two tasks, every chunk limit up to ChunkMax, every placement of up to SpurMax spurious Pendings on poll_write / poll_flush / poll_read, pipe capacities 1, 2, 3, 5, 17; non-trivial = all",
                   ["ioasync.polls.*complete", "ioasync.polls.spurious.*", "ioasync.polls.prefix", "ioasync.recv-paths", "ioasync.polls.*cancel*"],
                   [io_async_cfg("UE6", 2, 3, 3, 1, False, live=True)]
                   + [io_async_cfg("UE6", 2, pc, ch, sp, True) for pc, ch, sp in [(1, 1, 1), (2, 2, 1), (3, 3, 2), (5, 5, 2), (17, 8, 1)]]
                   + [io_async_cfg("US2", 2, pc, ch, 1, True) for pc, ch in [(3, 3), (5, 4)]]
                   + [io_async_cfg("X_vu8_u8", 3, 2, 2, 1, True)]
                   + [io_async_cfg("UE6", 4, 17, 12, 0, True)]                                     # stream longer than the receive buffer, lagging receiver
                   + [io_async_cfg("UE6", 2, 3, 3, 1, True, cancel=1), io_async_cfg("UE6", 2, 3, 3, 1, False, live=True, cancel=2)]   # a suspended recv future dropped, recv called again
                   + [io_recv_cfg("UE6", 3, 12, 0, "code", True, cap=c) for c in (0, 4)]           # async receiver alone: every chunking, tight capacities
                   + [io_recv_cfg("US2", 3, 12, 0, "code", True, cap=0)],
                   [io_async_cfg("UE6", 2, 3, 3, 2, False, live=True)]
                   + [io_async_cfg("UE6", 3, pc, ch, sp, True) for pc, ch, sp in [(1, 1, 2), (2, 2, 2), (3, 3, 2), (5, 5, 2), (17, 12, 2)]]
                   + [io_async_cfg(m, 2, pc, ch, 2, True) for m in ["US2", "UE1", "V_u8_u32"] for pc, ch in [(1, 1), (3, 3), (5, 4)]]
                   + [io_async_cfg("X_vu8_u8", 3, pc, 2, 2, True) for pc in [1, 2, 5]]
                   + [io_async_cfg("UE6", 5, 17, 12, 1, True)]
                   + [io_async_cfg("UE6", 3, pc, 3, 1, True, cancel=2) for pc in (2, 5)] + [io_async_cfg("UE6", 2, 3, 3, 1, False, live=True, cancel=2)]
                   + [io_recv_cfg(m, 3, 12, 0, "code", True, cap=c) for m in ("UE6", "US2", "V_u8_u32") for c in (0, 4, 8)]),
    "C10": io_plan(IO_TEXT, "receiver model fed arbitrary streams: all strings over {0,1,2,255} up to RawLen, a valid stream with one byte replaced (first 12 positions x 3 values), a valid stream truncated at every position; every chunking; non-trivial = all",
                   ["iorecv.arbitrary.*"],
                   [io_recv_cfg(m, 2, 4, 0, "code", True, arbitrary=True, rawlen=r) for m, r in [("UE6", 4), ("X_vu8_u8", 4), ("US2", 3), ("V_u8_u16", 3), ("UE11", 3), ("UE2", 3)]]
                   + [io_recv_cfg("UE6", 2, 4, 0, "code", True, arbitrary=True, rawlen=3, retain=1)]
                   + [io_recv_cfg("US3", 2, 4, 0, "code", True, arbitrary=True, rawlen=2)]            # a string message: contents cut inside a character
                   + [io_recv_cfg("X_vi32_u16", 2, 4, 0, "code", True, arbitrary=True, rawlen=2)],    # items more aligned than the offset type: links aligned for the offset only
                   [io_recv_cfg(m, 2, 6, 0, "code", True, arbitrary=True, rawlen=r) for m, r in [("UE6", 5), ("X_vu8_u8", 5), ("US2", 4), ("UE1", 4), ("X_s8_u16", 4)]]),
})

# ---- unbounded window arithmetic (Apalache, inductive invariant) --------------------------------------
APALACHE_WINDOW = {"type": "apalache", "module": "IoWindow", "obligations": [
    {"name": "Init => IndInv", "args": ["--cinit=ConstInit", "--init=Init", "--inv=IndInv", "--length=0"]},
    {"name": "IndInv /\\ Next => IndInv'", "args": ["--cinit=ConstInit", "--init=IndInit", "--inv=IndInv", "--length=1"]},
    {"name": "IndInv => Safety", "args": ["--cinit=ConstInit", "--init=IndInit", "--inv=Safety", "--length=0"]},
]}
for pid in ("C07", "C10"):
    for tier in ("quick", "thorough"):
        PLANS[pid][tier].append(APALACHE_WINDOW)
    PLANS[pid]["rule"] += "; plus, for every capacity / alignment / chunk size / message size at once, the window arithmetic (WindowInv, conservation, GuardInside) as an inductive invariant discharged by Apalache (spec/IoWindow.tla; TLC checks on the permissive instances that IoRecv refines it)"
    PLANS[pid]["must_exercise"].append("apalache.obligations")

# ---- the rounding arithmetic of the layout rules, proved for all integers (TLAPS) ------------------------
for tier in ("quick", "thorough"):
    PLANS["C04"][tier].append({"type": "tlaps", "module": "tlaps/LayoutArith"})
PLANS["C04"]["rule"] += "; plus the rounding lemmas (CeilMul / FloorMul bounds, multiples, gap) the layout rule is built from, proved for all integers by tlapm (spec/tlaps/LayoutArith.tla)"
PLANS["C04"]["must_exercise"].append("tlaps.obligations")

META = {
    "guard": "cargo feature `verif` of flatty-io (off by default)",
    "enable": "the harness depends on /repo by path; io hooks: flatty-io with features = [\"verif\"]",
    "hook_commits": ["9b2ae68"],
    "engines": [
        {"name": "tlc", "path": "/verif/spec", "serves_properties": sorted(PLANS), "kind_free_text": "explicit TLA+ specification of the flat format, checked with TLC; prints one replayable case per explored state"},
        {"name": "apalache", "path": "/verif/spec/IoWindow.tla", "serves_properties": ["C07", "C10"], "kind_free_text": "Apalache (symbolic) check that the receive-window arithmetic is an inductive invariant for every capacity, alignment, chunk and message size"},
        {"name": "tlaps", "path": "/verif/spec/tlaps", "serves_properties": ["C04"], "kind_free_text": "TLA+ proof system (tlapm, SMT back end): the rounding lemmas behind the layout rule for all integers"},
        {"name": "harness", "path": "/verif/harness", "serves_properties": sorted(PLANS), "kind_free_text": "Rust replayer built against /repo's working tree: replays TLC's cases into the real API inside guard-paged memory and judges each property's projection"},
    ],
    "notes": "Model-based verification with an explicit TLA+ specification (DESIGN.md, section 0 = as built). ./check <ID> quick|thorough|--replay <file>; exit 0 held, 1 VIOLATION, 2 tool error. TLC on spec/*.tla + replay of its cases into the real API (harness/) + TLC validation of traces recorded from the real code (spec/Trace*.tla, judged per property via PROP); Apalache (spec/IoWindow.tla) and TLAPS (spec/tlaps/LayoutArith.tla) for two unbounded lemmas. Known findings: KNOWN_FINDINGS.txt. Seeded changes: seeded/ (120), controls: seeded-benign/ (38); tools/seeded.py, tools/benign.py.",
    "not_yet": {},
}
