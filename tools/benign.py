#!/usr/bin/env python3
"""False-alarm controls: behaviour-preserving changes (written by independent sub-agents or by hand) that every check
must stay silent on.

  benign.py collect <worktree> <prefix>   copy <worktree>/BENIGN/bN.diff (+ notes.md) to seeded-benign/<prefix>-bN/
  benign.py eval [<id> ...]               apply each stored change to the repository copy ($SEEDED_REPO, default /repo), run the
                                          unedited test suite and every quick check, undo the change, record the outcome in
                                          seeded-benign/<id>/result.json (alarm = any check that does not exit 0)
  benign.py table                         markdown table of the recorded outcomes
"""
import glob, json, os, re, shutil, subprocess, sys, time

ROOT = os.path.dirname(os.path.dirname(os.path.abspath(__file__)))
BENIGN = os.environ.get("BENIGN_DIR", os.path.join(ROOT, "seeded-benign"))
REPO = os.environ.get("SEEDED_REPO", "/repo")
ALL = ["C%02d" % i for i in range(1, 21)]


def sh(cmd, cwd=None, timeout=3600):
    r = subprocess.run(cmd, cwd=cwd, shell=isinstance(cmd, str), stdout=subprocess.PIPE, stderr=subprocess.STDOUT, text=True, timeout=timeout)
    return r.returncode, r.stdout


def collect(wt, prefix):
    for d in sorted(glob.glob(os.path.join(wt, "BENIGN", "b*.diff"))):
        n = re.match(r"b(\d+)", os.path.basename(d)).group(1)
        dst = os.path.join(BENIGN, "%s-b%s" % (prefix, n))
        os.makedirs(dst, exist_ok=True)
        shutil.copy(d, os.path.join(dst, "patch.diff"))
        notes = os.path.join(wt, "BENIGN", "notes.md")
        if os.path.exists(notes):
            shutil.copy(notes, os.path.join(dst, "notes.md"))
        print("stored", dst)


def evaluate(ids):
    for bid in ids:
        dst = os.path.join(BENIGN, bid)
        rc, out = sh(["git", "-C", REPO, "status", "--porcelain", "--untracked-files=no"])
        if out.strip():
            print("refusing: repository copy has local modifications:\n" + out)
            return
        rc, out = sh(["git", "-C", REPO, "apply", os.path.join(dst, "patch.diff")])
        if rc != 0:
            print(bid, "does not apply:", out[-300:])
            json.dump({"id": bid, "applies": False}, open(os.path.join(dst, "result.json"), "w"), indent=1)
            continue
        res = {"id": bid, "applies": True, "checks": {}}
        prev = os.path.join(dst, "result.json")
        if os.environ.get("BENIGN_SKIP_SUITE") and os.path.exists(prev):
            res["suite"] = json.load(open(prev)).get("suite", {})     # the change itself is the same: keep the recorded suite run
        try:
            if not os.environ.get("BENIGN_SKIP_SUITE"):
                rc, out = sh("cargo test --workspace --offline --no-fail-fast 2>&1", cwd=REPO)
                passed = sum(int(m.group(1)) for m in re.finditer(r"test result: \w+\. (\d+) passed", out))
                failed = sum(int(m.group(1)) for m in re.finditer(r"test result: \w+\. \d+ passed; (\d+) failed", out))
                res["suite"] = {"rc": rc, "passed": passed, "failed": failed}
                print("  %s suite rc=%d passed=%d failed=%d" % (bid, rc, passed, failed), flush=True)
            for c in ALL:
                t0 = time.time()
                rc, out = sh([os.path.join(ROOT, "check"), c, "quick"], cwd=ROOT)
                lines = [l[:500] for l in out.splitlines() if l.startswith("VIOLATION") or l.startswith("TOOL-ERROR")]
                res["checks"][c] = {"exit": rc, "lines": lines[:3], "wall_s": round(time.time() - t0, 1)}
                if rc != 0:
                    print("  %s %s exit=%d %s" % (bid, c, rc, lines[0][:200] if lines else ""), flush=True)
        finally:
            sh(["git", "-C", REPO, "checkout", "--", "."])
        res["alarms"] = sorted(c for c, r in res["checks"].items() if r["exit"] != 0)
        json.dump(res, open(os.path.join(dst, "result.json"), "w"), indent=1)
        print("%s: alarms %s" % (bid, res["alarms"]), flush=True)


def table():
    print("| control | suite with the change | checks that raised an alarm | disposition |")
    print("|---|---|---|---|")
    for bid in sorted(os.listdir(BENIGN)):
        rp = os.path.join(BENIGN, bid, "result.json")
        if not os.path.exists(rp):
            continue
        r = json.load(open(rp))
        su = r.get("suite", {})
        disp = ""
        dp = os.path.join(BENIGN, bid, "disposition.txt")
        if os.path.exists(dp):
            disp = open(dp).read().strip().replace("\n", " ")
        print("| %s | %s | %s | %s |" % (bid, "%s passed, %s failed" % (su.get("passed", "?"), su.get("failed", "?")) if su else "-", " ".join(r.get("alarms", [])) or "none", disp))


if __name__ == "__main__":
    if sys.argv[1] == "collect":
        collect(sys.argv[2], sys.argv[3])
    elif sys.argv[1] == "eval":
        evaluate(sys.argv[2:] or sorted(os.listdir(BENIGN)))
    elif sys.argv[1] == "table":
        table()
