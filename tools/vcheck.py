"""Driver of the verification checks.  See ./check and DESIGN.md section 7."""
import fnmatch, hashlib, json, os, re, shutil, subprocess, sys, time

ROOT = os.path.dirname(os.path.dirname(os.path.abspath(__file__)))
SPEC = os.path.join(ROOT, "spec")
HARNESS = os.path.join(ROOT, "harness")
WORK = os.path.join(ROOT, "work")
EVID = os.path.join(ROOT, "evidence")
REPLAYS = os.path.join(EVID, "replays")
KNOWN = os.path.join(ROOT, "KNOWN_FINDINGS.txt")
BIN = os.path.join(HARNESS, "target", "debug", "harness")
TLA_CP = "/opt/veriftools/tla/tla2tools.jar:/opt/veriftools/tla/CommunityModules-deps.jar"
NSHARDS = int(os.environ.get("VERIF_SHARDS", "8"))
TLC_WORKERS = int(os.environ.get("VERIF_TLC_WORKERS", "10"))


class ToolError(Exception):
    pass


def log(*a):
    print("[check]", *a, file=sys.stderr, flush=True)


def sh(cmd, **kw):
    return subprocess.run(cmd, stdout=subprocess.PIPE, stderr=subprocess.STDOUT, text=True, **kw)


# ---------------------------------------------------------------------------------------------
# build
# ---------------------------------------------------------------------------------------------
def module_closure(module):
    """The modules a model depends on: transitive closure of EXTENDS / INSTANCE over spec/*.tla."""
    seen, todo = set(), [module]
    while todo:
        m = todo.pop()
        f = os.path.join(SPEC, m + ".tla")
        if m in seen or not os.path.exists(f):
            continue
        seen.add(m)
        txt = open(f).read()
        for line in txt.splitlines():
            mm = re.match(r"\s*(EXTENDS|INSTANCE)\s+(.*)", line)
            if mm:
                for name in re.split(r"[,\s]+", mm.group(2)):
                    name = name.strip()
                    if name and name not in ("WITH",):
                        todo.append(name)
    return sorted(seen)


def spec_hash(extra="", module=None):
    h = hashlib.sha256()
    files = [m + ".tla" for m in module_closure(module)] if module else sorted(f for f in os.listdir(SPEC) if f.endswith(".tla"))
    for f in files:
        h.update(f.encode())
        h.update(open(os.path.join(SPEC, f), "rb").read())
    h.update(extra.encode())
    return h.hexdigest()[:20]


def ensure_catalog():
    """Regenerate harness/src/catalog.rs from the specification's catalog when the spec changed."""
    stamp = os.path.join(WORK, "catalog.stamp")
    key = spec_hash("catalog", "MCLayout") + hashlib.sha256(open(os.path.join(HARNESS, "gen.py"), "rb").read()).hexdigest()[:8]
    dst = os.path.join(HARNESS, "src", "catalog.rs")
    if os.path.exists(stamp) and open(stamp).read() == key and os.path.exists(dst):
        return
    res = run_tlc("MCLayout", "MCLayout.cfg", use_cache=True)
    r = sh([sys.executable, os.path.join(HARNESS, "gen.py"), res["out"], dst, os.path.join(HARNESS, "neg")])
    if r.returncode != 0:
        raise ToolError("gen.py failed:\n" + r.stdout)
    open(stamp, "w").write(key)


def build_harness():
    """Always goes through cargo: the harness depends on /repo by path, so any edit there is rebuilt."""
    os.makedirs(WORK, exist_ok=True)
    ensure_catalog()
    lock = os.path.join(HARNESS, "Cargo.lock")
    if not os.path.exists(lock):
        shutil.copy("/repo/Cargo.lock", lock)
    env = dict(os.environ, CARGO_NET_OFFLINE="true")
    t0 = time.time()
    r = sh(["cargo", "build", "--offline", "--quiet"], cwd=HARNESS, env=env)
    if r.returncode != 0:
        raise ToolError("cargo build of the harness against /repo failed:\n" + r.stdout[-4000:])
    log("harness built in %.1fs" % (time.time() - t0))


# ---------------------------------------------------------------------------------------------
# TLC
# ---------------------------------------------------------------------------------------------
def materialize_cfg(stp):
    """A step may carry its configuration as text (generated families of configurations)."""
    if "cfg_text" in stp:
        d = os.path.join(WORK, "cfg")
        os.makedirs(d, exist_ok=True)
        path = os.path.join(d, stp["cfg"])
        if not os.path.exists(path) or open(path).read() != stp["cfg_text"]:
            open(path, "w").write(stp["cfg_text"])
        return path
    return os.path.join(SPEC, stp["cfg"])


def jtmp():
    """SANY unpacks the standard modules into java.io.tmpdir at every start: keep that under work/, not in /tmp."""
    d = os.path.join(WORK, "jtmp.%d" % os.getpid())
    os.makedirs(d, exist_ok=True)
    return d


def run_tlc(module, cfg, use_cache=True, extra_args=(), env_extra=None, timeout=1500, workers=None, tag=None, cfg_path=None):
    os.makedirs(os.path.join(WORK, "tlc"), exist_ok=True)
    cfg_path = cfg_path or os.path.join(SPEC, cfg)
    key = spec_hash(open(cfg_path).read() + module + " ".join(extra_args) + json.dumps(env_extra or {}, sort_keys=True), module)
    name = tag or (module + "." + os.path.splitext(cfg)[0])
    out = os.path.join(WORK, "tlc", "%s.%s.out" % (name, key))
    meta = out + ".json"
    if use_cache and os.path.exists(out) and os.path.exists(meta):
        m = json.load(open(meta))
        m["cached"] = True
        m["out"] = out
        return m
    metadir = os.path.join(WORK, "tlc", "meta.%s.%d" % (name, os.getpid()))
    cmd = ["timeout", str(timeout), "java", "-Djava.io.tmpdir=" + jtmp(), "-XX:+UseParallelGC", "-Xmx8g", "-Xss256m", "-cp", TLA_CP, "tlc2.TLC",
           "-workers", str(workers or TLC_WORKERS), "-metadir", metadir, "-cleanup", "-noGenerateSpecTE",
           "-config", cfg_path] + list(extra_args) + [module + ".tla"]
    env = dict(os.environ)
    env.update(env_extra or {})
    t0 = time.time()
    tmp = out + ".tmp"
    with open(tmp, "w") as f:
        rc = subprocess.run(cmd, cwd=SPEC, stdout=f, stderr=subprocess.STDOUT, env=env).returncode
    shutil.rmtree(metadir, ignore_errors=True)
    wall = time.time() - t0
    tail = []
    states = distinct = depth = None
    err = None
    with open(tmp, errors="replace") as f:
        for line in f:
            if line.startswith('<<"'):
                continue
            tail.append(line.rstrip("\n"))
            m = re.match(r"(\d+) states generated, (\d+) distinct states found", line)
            if m:
                states, distinct = int(m.group(1)), int(m.group(2))
            m = re.match(r"The depth of the complete state graph search is (\d+)", line)
            if m:
                depth = int(m.group(1))
            if line.startswith("Error:") and err is None:
                err = line.strip()
    ok = rc == 0 and err is None and states is not None and any("Model checking completed. No error has been found" in l or "Finished in" in l for l in tail)
    m = {"module": module, "cfg": cfg, "rc": rc, "ok": ok, "states": states, "distinct": distinct, "depth": depth,
         "wall_s": round(wall, 2), "error": err, "tail": tail[-25:], "cached": False, "key": key,
         "cmd": "tlc -workers %d -config %s %s.tla" % (workers or TLC_WORKERS, cfg, module)}
    if not ok:
        os.replace(tmp, out + ".failed")
        m["out"] = out + ".failed"
        raise ToolError("TLC run %s/%s failed (rc=%s): %s\n%s" % (module, cfg, rc, err, "\n".join(tail[-25:])))
    os.replace(tmp, out)
    json.dump(m, open(meta, "w"))
    m["out"] = out
    # entries of the same model under an older specification are never used again: drop them
    pat = re.compile(re.escape(name) + r"\.[0-9a-f]{20}\.out(\.json|\.failed|\.tmp)?$")
    for fn in os.listdir(os.path.join(WORK, "tlc")):
        if pat.match(fn) and ("." + key + ".") not in fn:
            try:
                os.remove(os.path.join(WORK, "tlc", fn))
            except OSError:
                pass
    return m


# ---------------------------------------------------------------------------------------------
# replay
# ---------------------------------------------------------------------------------------------
def run_replay(cases_file, props, tag, extra=(), traces=False):
    """Run the harness over a cases file in NSHARDS processes; crashes and hangs are data."""
    os.makedirs(os.path.join(WORK, "replay"), exist_ok=True)
    procs = []
    for s in range(NSHARDS):
        o = os.path.join(WORK, "replay", "%s.%d.json" % (tag, s))
        p = os.path.join(WORK, "replay", "%s.%d.progress" % (tag, s))
        for f in (o, p):
            if os.path.exists(f):
                os.remove(f)
        procs.append({"shard": s, "out": o, "progress": p, "skip": 0, "proc": None, "parts": [], "abnormal": [],
                      "traces": os.path.join(WORK, "replay", "%s.%d.traces.ndjson" % (tag, s)) if traces else None})

    def start(pr):
        cmd = [BIN, "replay", "--cases", cases_file, "--out", pr["out"], "--props", ",".join(props),
               "--shard", "%d/%d" % (pr["shard"], NSHARDS), "--progress", pr["progress"], "--skip-to", str(pr["skip"])] + list(extra)
        if pr["traces"]:
            cmd += ["--traces", pr["traces"]]
        pr["proc"] = subprocess.Popen(cmd, stdout=subprocess.DEVNULL, stderr=subprocess.PIPE, text=True)

    for pr in procs:
        start(pr)
    pending = list(procs)
    while pending:
        for pr in list(pending):
            rc = pr["proc"].wait()
            err = pr["proc"].stderr.read()
            if rc == 0 and os.path.exists(pr["out"]):
                pr["parts"].append(json.load(open(pr["out"])))
                pending.remove(pr)
                continue
            # abnormal exit: the progress file names the case that was running
            idx = None
            try:
                idx = int(open(pr["progress"]).read().split()[0])
            except Exception:
                pass
            how = "hang" if rc == 3 else ("signal %d" % -rc if rc < 0 else "exit %d" % rc)
            pr["abnormal"].append({"case_index": idx, "how": how, "stderr": err[-500:]})
            if idx is None or len(pr["abnormal"]) > 25:
                pending.remove(pr)
                if idx is None:
                    raise ToolError("harness shard %d died without progress information (%s): %s" % (pr["shard"], how, err[-500:]))
                continue
            pr["skip"] = idx + 1
            start(pr)
    return procs


def run_negative(prop, only_portable):
    """Compile-fail conformance: every definition of the negative catalog must be rejected by the macro."""
    neg = os.path.join(HARNESS, "neg")
    lock = os.path.join(neg, "Cargo.lock")
    if not os.path.exists(lock):
        shutil.copy("/repo/Cargo.lock", lock)
    index = json.load(open(os.path.join(neg, "index.json")))
    rep = {"cases_run": 0, "counts": {}, "samples": {}, "sigs": {}, "kept": []}
    env = dict(os.environ, CARGO_NET_OFFLINE="true")
    # a positive control first: the crate builds when there is nothing to reject
    for n in index:
        if only_portable and not n["portable"]:
            continue
        r = sh(["cargo", "check", "--offline", "--quiet", "--bin", n["bin"]], cwd=neg, env=env)
        rep["cases_run"] += 1
        rep["counts"]["neg.case"] = rep["counts"].get("neg.case", 0) + 1
        rep["counts"]["judged." + prop] = rep["counts"].get("judged." + prop, 0) + 1
        rep["samples"].setdefault("neg." + n["id"], {"id": n["id"], "why": n["why"], "compiler_says": r.stdout.strip().splitlines()[:3]})
        if r.returncode == 0:
            sig = "%s|accepted-by-macro|%s|compiles" % (prop, n["id"])
            v = {"prop": prop, "sig": sig, "detail": "the macro accepts a definition the specification says it must reject: " + n["why"], "case": {"k": "neg", "id": n["id"]}}
            rep["sigs"][sig] = {"count": 1, "first": v}
        elif "error" not in r.stdout:
            raise ToolError("negative build of %s failed without a compiler error:\n%s" % (n["id"], r.stdout[-500:]))
    return rep


def tlc_trace(module, cfg, trace_file, timeout=1200, prop=None):
    """TLC trace validation: accepts iff every recorded event is a step of the specification."""
    metadir = os.path.join(WORK, "tlc", "meta.trace.%s.%d" % (module, os.getpid()))
    cmd = ["timeout", str(timeout), "java", "-Djava.io.tmpdir=" + jtmp(), "-XX:+UseParallelGC", "-Xmx6g", "-Xss1g", "-Dtlc2.tool.queue.IStateQueue=StateDeque",
           "-cp", TLA_CP, "tlc2.TLC", "-workers", "1", "-metadir", metadir, "-cleanup", "-noGenerateSpecTE", "-config", cfg, module + ".tla"]
    t0 = time.time()
    r = subprocess.run(cmd, cwd=SPEC, stdout=subprocess.PIPE, stderr=subprocess.STDOUT, text=True, env=dict(os.environ, TRACE=trace_file, **({"PROP": prop} if prop else {})))
    shutil.rmtree(metadir, ignore_errors=True)
    out = r.stdout
    rejected = [l for l in out.splitlines() if "TRACE-REJECTED" in l]
    m = re.search(r"(\d+) states generated, (\d+) distinct states found", out)
    ok = r.returncode == 0 and not rejected and "No error has been found" in out
    if not ok and not rejected:
        raise ToolError("TLC trace validation %s failed (rc=%s):\n%s" % (module, r.returncode, "\n".join(out.splitlines()[-15:])))
    return {"accepted": ok, "rejected": rejected[:1], "states": int(m.group(2)) if m else 0, "wall_s": round(time.time() - t0, 1),
            "cmd": "%sTRACE=%s tlc -workers 1 -config %s %s.tla" % ("PROP=%s " % prop if prop else "", os.path.relpath(trace_file, ROOT), cfg, module)}


def run_apalache(module, obligations):
    """Unbounded check of a small integer specification: every obligation must end with 'NoError' (else: tool error,
    the specification itself is wrong)."""
    d = os.path.join(SPEC, os.path.dirname(module))
    name = os.path.basename(module)
    out = []
    for ob in obligations:
        outdir = os.path.join(WORK, "apalache", name)
        shutil.rmtree(outdir, ignore_errors=True)
        os.makedirs(outdir, exist_ok=True)
        cmd = ["timeout", "900", "apalache-mc", "check", "--out-dir=" + outdir] + ob["args"] + [name + ".tla"]
        t0 = time.time()
        # (TMPDIR: the launcher unpacks SANY's standard modules with `mktemp -t`, which would otherwise litter /tmp)
        r = subprocess.run(cmd, cwd=d, stdout=subprocess.PIPE, stderr=subprocess.STDOUT, text=True, env=dict(os.environ, TMPDIR=outdir))
        shutil.rmtree(outdir, ignore_errors=True)
        shutil.rmtree(os.path.join(d, "tmp"), ignore_errors=True)      # Apalache's scratch directory in the working directory
        ok = r.returncode == 0 and "The outcome is: NoError" in r.stdout
        if not ok:
            raise ToolError("Apalache obligation '%s' of %s not discharged (rc=%s):\n%s" % (ob["name"], module, r.returncode, "\n".join(r.stdout.splitlines()[-12:])))
        out.append({"module": module, "obligation": ob["name"], "cmd": "apalache-mc check " + " ".join(ob["args"]) + " " + name + ".tla", "outcome": "NoError", "wall_s": round(time.time() - t0, 1)})
    return out


def run_tlaps(module):
    """Machine-checked proof (tlapm) of the integer lemmas the layout rules rest on; an unproved obligation is a tool error."""
    d = os.path.join(SPEC, os.path.dirname(module))
    name = os.path.basename(module)
    # the lemmas are about the operators of FlatTypes.tla: their definitions must be the same text in both modules
    def defs(path):
        txt = open(path).read()
        return {n: re.sub(r"\s+", " ", re.search(r"^%s\(x, m\)\s*==(.*)$" % n, txt, re.M).group(1)).strip() for n in ("CeilMul", "FloorMul")}
    if defs(os.path.join(SPEC, "FlatTypes.tla")) != defs(os.path.join(d, name + ".tla")):
        raise ToolError("CeilMul / FloorMul of %s differ from FlatTypes.tla" % module)
    cache = os.path.join(WORK, "tlaps")
    shutil.rmtree(cache, ignore_errors=True)
    os.makedirs(cache, exist_ok=True)
    t0 = time.time()
    r = subprocess.run(["timeout", "900", "tlapm", "--threads", "8", "--cache-dir", cache, name + ".tla"], cwd=d, stdout=subprocess.PIPE, stderr=subprocess.STDOUT, text=True)
    shutil.rmtree(cache, ignore_errors=True)
    m = re.search(r"All (\d+) obligations? proved", r.stdout)
    if r.returncode != 0 or not m:
        raise ToolError("tlapm did not prove %s (rc=%s):\n%s" % (module, r.returncode, "\n".join(r.stdout.splitlines()[-12:])))
    return {"module": module, "obligation": "all theorems of the module", "cmd": "tlapm --threads 8 %s.tla" % name, "outcome": "All %s obligations proved" % m.group(1),
            "obligations": int(m.group(1)), "wall_s": round(time.time() - t0, 1)}


def run_trace_step(prop, stp, seed):
    """impl -> spec: a seeded driver exercises the real library, TLC judges the recorded trace."""
    os.makedirs(os.path.join(WORK, "traces"), exist_ok=True)
    trace = os.path.join(WORK, "traces", "%s.%s.ndjson" % (prop, stp["driver"]))
    r = sh([BIN, "drive", "--kind", stp["driver"], "--types", ",".join(stp["types"]), "--n", str(stp["n"]), "--steps", str(stp.get("steps", 40)),
            "--seed", str(seed), "--out", trace])
    crashed = None
    if r.returncode != 0:
        if r.returncode < 0 or r.returncode in (101, 134, 139):
            # the library took the process down (abort, fault) under the driver: that is an outcome, not a tool error
            crashed = "signal %d" % -r.returncode if r.returncode < 0 else "exit %d" % r.returncode
        else:
            raise ToolError("driver failed: " + r.stdout[-500:])
    nev = sum(1 for _ in open(trace)) if os.path.exists(trace) else 0
    if crashed:
        last = ""
        try:
            last = open(trace).read().splitlines()[-1][:600]
        except Exception:
            pass
        sig = "%s|driver-crash|%s|%s" % (prop, stp["driver"], crashed.replace(" ", ""))
        v = {"prop": prop, "sig": sig, "detail": "the seeded driver (%s, seed %s) ended abnormally (%s) after %d events: %s; last recorded event: %s" % (stp["driver"], seed, crashed, nev, r.stdout[-200:].strip(), last),
             "case": {"k": "trace", "step": {k: stp[k] for k in stp if k != "type"}, "seed": seed}}
        return {"cases_run": nev, "counts": {"trace.%s.events" % stp["driver"]: max(nev, 1), "judged." + prop: nev}, "samples": {}, "sigs": {sig: {"count": 1, "first": v}}, "kept": [],
                "trace": {"accepted": False, "rejected": [crashed], "states": 0, "wall_s": 0.0, "cmd": "driver crashed"}}
    module = stp.get("module", "TraceFlat")
    res = tlc_trace(module, module + ".cfg", trace, prop=prop)
    rep = {"cases_run": nev, "counts": {"trace.%s.events" % stp["driver"]: nev, "judged." + prop: nev}, "samples": {}, "sigs": {}, "kept": [], "trace": res}
    with open(trace) as f:
        first = f.readline().strip()
        if first:
            rep["samples"]["trace." + stp["driver"]] = json.loads(first)
    if not res["accepted"]:
        line = res["rejected"][0]
        m = re.search(r'"event", (\d+), "(.*)">>', line)
        ev = {}
        if m:
            try:
                ev = json.loads(json.loads('"' + m.group(2) + '"'))
            except Exception:
                ev = {"raw": m.group(2)[:2000]}
        what = ev.get("ev", ev.get("ty", "?")) + ("." + str(ev.get("op", {}).get("op", "")) if isinstance(ev.get("op"), dict) else "") + ("." + ev.get("what", "") if ev.get("ev") == "panic" else "")
        sig = "%s|trace|%s|%s" % (prop, ev.get("id", ev.get("ty", "?")), what)
        v = {"prop": prop, "sig": sig, "detail": "recorded event %s is not a step of the specification: %s" % (m.group(1) if m else "?", json.dumps(ev)[:600]),
             "case": {"k": "trace", "step": {k: stp[k] for k in stp if k != "type"}, "seed": seed, "event": ev}}
        rep["sigs"][sig] = {"count": 1, "first": v}
    return rep


def validate_io_traces(prop, traces_files, limit):
    """Trace validation of recorded receiver / sender runs (hook + pipe events) against the IO specifications:
    receiver runs against the permissive receiver (TraceIoRecv), sender runs against TraceIoSend."""
    os.makedirs(os.path.join(WORK, "traces"), exist_ok=True)
    merged = {"iorecv": os.path.join(WORK, "traces", "%s.iorecv.ndjson" % prop), "iosend": os.path.join(WORK, "traces", "%s.iosend.ndjson" % prop)}
    n = {"iorecv": 0, "iosend": 0}
    outs = {k: open(v, "w") for k, v in merged.items()}
    for tf in traces_files:
        if not os.path.exists(tf):
            continue
        seen = {"iorecv": 0, "iosend": 0}
        for line in open(tf):
            kind = "iosend" if '"kind":"iosend"' in line else "iorecv"
            i = seen[kind]
            seen[kind] += 1
            if n[kind] >= limit:
                continue
            if i % 7 == 0:       # a spread sample of the recorded runs
                outs[kind].write(line)
                n[kind] += 1
    for f in outs.values():
        f.close()
    if n["iorecv"] + n["iosend"] == 0:
        return None
    res = None
    for kind, module in (("iorecv", "TraceIoRecv"), ("iosend", "TraceIoSend")):
        if n[kind] == 0:
            continue
        r = tlc_trace(module, module + ".cfg", merged[kind])
        r["runs"] = n[kind]
        r["kind"] = kind
        if res is None:
            res = r
        else:
            res = {"accepted": res["accepted"] and r["accepted"], "rejected": res["rejected"] + r["rejected"], "states": res["states"] + r["states"],
                   "wall_s": round(res["wall_s"] + r["wall_s"], 1), "cmd": res["cmd"] + "; " + r["cmd"], "runs": res["runs"] + r["runs"], "kind": "iorecv+iosend"}
    return res


def fetch_case(cases_file, index):
    i = 0
    with open(cases_file, errors="replace") as f:
        for line in f:
            if line.startswith('<<"CASE"') or line.startswith("{"):
                if i == index:
                    l = line.rstrip("\n")
                    if l.startswith("{"):
                        return json.loads(l)
                    inner = l[len('<<"CASE", '):-2]
                    return json.loads(json.loads(inner))
                i += 1
    return None


def merge_replay(procs, cases_file, props):
    counts, samples, sigs, kept = {}, {}, {}, []
    run = 0
    for pr in procs:
        for part in pr["parts"]:
            run += part["cases_run"]
            for k, v in part["counts"].items():
                counts[k] = counts.get(k, 0) + v
            for k, v in part["samples"].items():
                samples.setdefault(k, v)
            for s in part["signatures"]:
                e = sigs.setdefault(s["sig"], {"count": 0, "first": s["first"]})
                e["count"] += s["count"]
            kept.extend(part["violations"])
        for ab in pr["abnormal"]:
            case = fetch_case(cases_file, ab["case_index"]) if ab["case_index"] is not None else None
            cid = (case or {}).get("id", "?")
            # a crash / hang inside the library is a violation of every property that forbids it
            for p in props:
                sig = "%s|%s|%s|%s" % (p, "crash" if ab["how"] != "hang" else "hang", cid, ab["how"].replace(" ", ""))
                v = {"prop": p, "sig": sig, "detail": "harness process ended abnormally (%s) while running this case: %s" % (ab["how"], ab["stderr"][-200:]),
                     "case": case, "case_index": ab["case_index"]}
                e = sigs.setdefault(sig, {"count": 0, "first": v})
                e["count"] += 1
                kept.append(v)
    return {"cases_run": run, "counts": counts, "samples": samples, "sigs": sigs, "kept": kept}


# ---------------------------------------------------------------------------------------------
# known findings
# ---------------------------------------------------------------------------------------------
def load_known():
    known, fixed = [], []
    if os.path.exists(KNOWN):
        for line in open(KNOWN):
            line = line.strip()
            if line.startswith("known:"):
                m = re.match(r"known:\s+property=(\S+)\s+sig=(\S+)\s+(.*)", line)
                if m:
                    known.append({"prop": m.group(1), "sig": m.group(2), "what": m.group(3)})
            elif line.startswith("fixed:"):
                fixed.append(line)
    return known, fixed


def match_known(known, prop, sig):
    for k in known:
        if k["prop"] == prop and fnmatch.fnmatchcase(sig, k["sig"]):
            return k
    return None


# ---------------------------------------------------------------------------------------------
# evidence
# ---------------------------------------------------------------------------------------------
def write_evidence(prop, tier, seed, level, coverage, assumptions, wall, violations):
    os.makedirs(EVID, exist_ok=True)
    ev = {"property_id": prop, "tier": tier, "seed": seed, "level": level, "coverage": coverage,
          "assumptions": assumptions, "wall_s": round(wall, 2), "violations": violations}
    json.dump(ev, open(os.path.join(EVID, prop + ".json"), "w"), indent=1)


def finish(prop, tier, seed, t0, steps, plan, known):
    """steps: list of dicts with tlc (meta), replay (merged), props."""
    os.makedirs(REPLAYS, exist_ok=True)
    unknown, knownhits = [], {}
    for st in steps:
        for sig, e in sorted(st["replay"]["sigs"].items()):
            p = sig.split("|")[0]
            if p != prop:
                continue
            k = match_known(known, prop, sig)
            if k:
                knownhits.setdefault(k["sig"], (k, 0))
                knownhits[k["sig"]] = (k, knownhits[k["sig"]][1] + e["count"])
            else:
                unknown.append((sig, e))
    for ksig, (k, n) in sorted(knownhits.items()):
        print("KNOWN-FINDING: property=%s %s (sig=%s, %d cases)" % (prop, k["what"], ksig, n))
    nviol = 0
    for sig, e in unknown:
        nviol += e["count"]
        fn = os.path.join(REPLAYS, "%s-%s.json" % (prop, hashlib.sha1(sig.encode()).hexdigest()[:10]))
        first = dict(e["first"])
        first["props"] = [prop]
        first["count"] = e["count"]
        json.dump(first, open(fn, "w"), indent=1)
        print("VIOLATION property=%s replay=%s sig=%s count=%d detail=%s" % (prop, fn, sig, e["count"], str(first.get("detail", ""))[:300].replace("\n", " ")))

    states = sum(st["tlc"]["distinct"] or 0 for st in steps if st.get("tlc"))
    transitions = sum(st["tlc"]["states"] or 0 for st in steps if st.get("tlc"))
    evals = sum(st["replay"]["cases_run"] for st in steps)
    counts = {}
    samples = []
    for st in steps:
        for k, v in st["replay"]["counts"].items():
            counts[k] = counts.get(k, 0) + v
        for k, v in list(st["replay"]["samples"].items())[:400]:
            if len(samples) < 6 and plan.get("sample_filter", lambda k: True)(k):
                samples.append({"class": k, "case": v})
    judged = counts.get("judged." + prop, 0)
    coverage = {
        "states": max(states, 1), "transitions": max(transitions, 1),
        "traces_validated_against_impl": evals,
        "samples": samples or [{"note": "no case in this run"}],
        "evaluations": evals,
        "distinct_nontrivial": judged,
        "rule": plan.get("rule", ""),
        "exhaustive": plan.get("exhaustive", True),
        "checker_cmd": "; ".join(st["tlc"]["cmd"] for st in steps if st.get("tlc")),
        "tlc_runs": [{k: st["tlc"].get(k) for k in ("module", "cfg", "states", "distinct", "depth", "wall_s", "cached", "key")} for st in steps if st.get("tlc")],
        "outcome_classes": {k: v for k, v in sorted(counts.items()) if not k.startswith("judged.")},
        "known_findings_met": [k["sig"] for k, _ in knownhits.values()],
        "trace_validation": [st["replay"]["trace"] for st in steps if st["replay"].get("trace")],
        "apalache": [o for st in steps for o in st["replay"].get("apalache", [])],
    }
    write_evidence(prop, tier, seed, "model_checking", coverage, plan.get("assumptions", []), time.time() - t0, nviol)
    return 1 if nviol else 0


def vacuity(plan, steps):
    need = plan.get("must_exercise", [])
    counts = {}
    for st in steps:
        for k, v in st["replay"]["counts"].items():
            counts[k] = counts.get(k, 0) + v
    missing = [k for k in need if not any(fnmatch.fnmatchcase(c, k) and n > 0 for c, n in counts.items())]
    if missing:
        raise ToolError("vacuous run: no case exercised %s (classes seen: %s)" % (missing, sorted(counts)))
    for k, n in counts.items():
        if k.startswith("unknown-") or k == "unparsable-line":
            raise ToolError("harness could not handle %d cases: %s" % (n, k))


def main(argv):
    from plans import PLANS
    if len(argv) < 2 or argv[0] not in PLANS:
        print(__doc__ or "usage: ./check <PROPERTY> quick|thorough | --replay <file>")
        print("properties:", " ".join(sorted(PLANS)))
        return 2
    prop = argv[0]
    seed = int(os.environ.get("VERIF_SEED", "1"))
    t0 = time.time()
    try:
        build_harness()
        if argv[1] == "--replay":
            rf = json.load(open(argv[2]))
            kind = (rf.get("case") or {}).get("k")
            if kind == "trace" and "driver" in rf["case"].get("step", {}):
                rep = run_trace_step(prop, dict(rf["case"]["step"], type="trace"), rf["case"].get("seed", 1))
                for sig, e in rep["sigs"].items():
                    print("VIOLATION property=%s sig=%s detail=%s" % (prop, sig, e["first"]["detail"][:400]))
                return 1 if rep["sigs"] else 0
            if kind == "neg":
                rep = run_negative(prop, False)
                for sig, e in rep["sigs"].items():
                    print("VIOLATION property=%s sig=%s detail=%s" % (prop, sig, e["first"]["detail"][:400]))
                return 1 if rep["sigs"] else 0
            r = subprocess.run([BIN, "one", "--file", argv[2], "--props", prop])
            return r.returncode
        tier = argv[1]
        if tier not in ("quick", "thorough"):
            print("tier must be quick or thorough")
            return 2
        plan = PLANS[prop]
        known, _ = load_known()
        steps = []
        for stp in plan[tier]:
            st = {"props": [prop]}
            if stp["type"] in ("tlc-replay", "tlc-only"):
                st["tlc"] = run_tlc(stp["module"], stp["cfg"], use_cache=os.environ.get("VERIF_NO_TLC_CACHE") is None, cfg_path=materialize_cfg(stp),
                                    timeout=1500 if tier == "quick" else 10800)
                log("TLC %s/%s: %s distinct states, %s generated, %.1fs%s" % (stp["module"], stp["cfg"], st["tlc"]["distinct"], st["tlc"]["states"], st["tlc"]["wall_s"], " (cached)" if st["tlc"]["cached"] else ""))
                if stp["type"] == "tlc-only":
                    st["replay"] = {"cases_run": 0, "counts": {}, "samples": {}, "sigs": {}, "kept": []}
                    steps.append(st)
                    continue
                tr = time.time()
                procs = run_replay(st["tlc"]["out"], [prop], "%s.%s" % (prop, os.path.splitext(stp["cfg"])[0]), stp.get("extra", ()), traces=stp.get("io_traces", False))
                st["replay"] = merge_replay(procs, st["tlc"]["out"], [prop])
                if stp.get("io_traces"):
                    tv = validate_io_traces(prop, [pr["traces"] for pr in procs], stp.get("io_traces_limit", 400))
                    if tv is not None:
                        st["replay"]["trace"] = tv
                        st["replay"]["counts"]["trace.%s.runs" % tv.get("kind", "iorecv")] = tv["runs"]
                        log("TLC trace validation of %d recorded %s runs: %s (%d states, %.1fs)" % (tv["runs"], tv.get("kind", "iorecv"), "accepted" if tv["accepted"] else "REJECTED", tv["states"], tv["wall_s"]))
                        if not tv["accepted"]:
                            sig = "%s|trace|%s|rejected" % (prop, tv.get("kind", "iorecv"))
                            st["replay"]["sigs"][sig] = {"count": 1, "first": {"prop": prop, "sig": sig, "detail": "recorded %s run is not a behaviour of the IO specification: " % tv.get("kind", "iorecv") + tv["rejected"][0][:600],
                                                                               "case": {"k": "trace", "step": {"io": stp["cfg"]}}}}
                log("replayed %d cases in %.1fs, %d violation signatures" % (st["replay"]["cases_run"], time.time() - tr, len(st["replay"]["sigs"])))
            elif stp["type"] == "trace":
                st["replay"] = run_trace_step(prop, stp, seed)
                tr = st["replay"]["trace"]
                log("driver %s: %d events, TLC trace validation %s (%d states, %.1fs)" % (stp["driver"], st["replay"]["cases_run"], "accepted" if tr["accepted"] else "REJECTED", tr["states"], tr["wall_s"]))
            elif stp["type"] == "apalache":
                obl = run_apalache(stp["module"], stp["obligations"])
                st["replay"] = {"cases_run": 0, "counts": {"apalache.obligations": len(obl)}, "samples": {}, "sigs": {}, "kept": [], "apalache": obl}
                log("Apalache %s: %d obligations discharged (%.1fs)" % (stp["module"], len(obl), sum(o["wall_s"] for o in obl)))
            elif stp["type"] == "tlaps":
                res = run_tlaps(stp["module"])
                st["replay"] = {"cases_run": 0, "counts": {"tlaps.obligations": res["obligations"]}, "samples": {}, "sigs": {}, "kept": [], "apalache": [res]}
                log("TLAPS %s: all %d obligations proved (%.1fs)" % (stp["module"], res["obligations"], res["wall_s"]))
            elif stp["type"] == "negative":
                st["replay"] = run_negative(prop, stp.get("only_portable", False))
                log("negative catalog: %d definitions must not compile, %d accepted" % (st["replay"]["cases_run"], len(st["replay"]["sigs"])))
            else:
                raise ToolError("unknown step type " + stp["type"])
            steps.append(st)
        # a run that reports a violation is not vacuous, whatever part of the cases a crashing library left unexplored:
        # the vacuity rule decides only whether a *silent* run may be believed
        vac = None
        try:
            vacuity(plan, steps)
        except ToolError as e:
            vac = e
        rc = finish(prop, tier, seed, t0, steps, plan, known)
        if vac is not None and rc != 1:
            raise vac
        return rc
    except ToolError as e:
        print("TOOL-ERROR property=%s %s" % (prop, e))
        return 2
    finally:
        shutil.rmtree(os.path.join(WORK, "jtmp.%d" % os.getpid()), ignore_errors=True)
