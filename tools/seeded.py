#!/usr/bin/env python3
"""Confirm and evaluate seeded changes (mutants) written by independent sub-agents.

  seeded.py confirm <worktree> <prop>     confirm every mN.diff under <worktree>/MUTANT: the unedited suite passes with
                                          the change, the demonstration fails with it and passes without it; store the
                                          confirmed ones under /verif/seeded/<prop>-mN/
  seeded.py eval [<id> ...]               apply each stored change to /repo (git apply), run the given checks, undo it
                                          (git checkout -- .), and record which checks report a violation
"""
import glob, json, os, re, shutil, subprocess, sys, time

ROOT = os.path.dirname(os.path.dirname(os.path.abspath(__file__)))
SEEDED = os.environ.get("SEEDED_DIR", os.path.join(ROOT, "seeded"))
REPO = os.environ.get("SEEDED_REPO", "/repo")
ALL = ["C%02d" % i for i in range(1, 21)]


def sh(cmd, cwd=None, timeout=1800):
    r = subprocess.run(cmd, cwd=cwd, shell=isinstance(cmd, str), stdout=subprocess.PIPE, stderr=subprocess.STDOUT, text=True, timeout=timeout)
    return r.returncode, r.stdout


def suite(wt):
    rc, out = sh("cargo test --workspace --offline --no-fail-fast 2>&1", cwd=wt)
    passed = sum(int(m.group(1)) for m in re.finditer(r"test result: \w+\. (\d+) passed", out))
    failed = sum(int(m.group(1)) for m in re.finditer(r"test result: \w+\. \d+ passed; (\d+) failed", out))
    return rc, passed, failed, out


def untracked(wt):
    rc, out = sh("git status --porcelain --untracked-files=all", cwd=wt)
    return [l[3:] for l in out.splitlines() if l.startswith("?? ") and not l[3:].startswith("MUTANT") and l[3:].endswith(".rs")]


def pkg_of(path):
    if path.startswith("io/"):
        return "flatty-io"
    if path.startswith("containers/"):
        return "flatty-containers"
    if path.startswith("base/"):
        return "flatty-base"
    if path.startswith("portable/"):
        return "flatty-portable"
    if path.startswith("tests/tests/") or path.startswith("tests/src/"):
        return "flatty-tests"
    if path.startswith("tests/"):
        return "flatty"
    return "flatty"


def confirm(wt, prop):
    mdir = os.path.join(wt, "MUTANT")
    diffs = sorted(glob.glob(os.path.join(mdir, "m*.diff")))
    demos = untracked(wt)
    results = []
    aside = os.path.join(mdir, "_aside")
    for d in diffs:
        n = re.match(r"m(\d+)", os.path.basename(d)).group(1)
        mine = [p for p in demos if re.search(r"m%s[_.]" % n, os.path.basename(p)) or re.search(r"_m%s_" % n, os.path.basename(p))]
        rec = {"id": "%s%s-m%s" % (prop, os.environ.get("SEEDED_SUFFIX", ""), n), "prop": prop, "diff": d, "demos": mine, "ok": False, "why": ""}
        results.append(rec)
        if not mine:
            rec["why"] = "no demonstration file found for this mutant among %s" % demos
            continue
        sh("git checkout -- .", cwd=wt)
        # 1. the unedited suite with the change (demonstrations moved aside)
        os.makedirs(aside, exist_ok=True)
        for p in demos:
            os.makedirs(os.path.dirname(os.path.join(aside, p)), exist_ok=True)
            shutil.move(os.path.join(wt, p), os.path.join(aside, p))
        rc, out = sh(["git", "apply", d], cwd=wt)
        if rc != 0:
            rec["why"] = "diff does not apply: " + out[-300:]
        else:
            rc, passed, failed, out = suite(wt)
            rec["suite_with_change"] = {"rc": rc, "passed": passed, "failed": failed}
            if rc != 0 or failed or passed < 71:
                rec["why"] = "suite does not pass with the change (%d passed, %d failed)" % (passed, failed)
        for p in demos:
            shutil.move(os.path.join(aside, p), os.path.join(wt, p))
        if rec["why"]:
            sh("git checkout -- .", cwd=wt)
            continue
        # 2. the demonstration fails with the change ...
        fails_with, passes_without = False, True
        for p in mine:
            name = os.path.splitext(os.path.basename(p))[0]
            rc1, out1 = sh("cargo test --offline -p %s --test %s 2>&1" % (pkg_of(p), name), cwd=wt)
            fails_with = fails_with or rc1 != 0
            rec.setdefault("demo_with_change", []).append({"demo": p, "rc": rc1, "tail": out1[-600:]})
        sh("git checkout -- .", cwd=wt)
        # 3. ... and passes without it
        for p in mine:
            name = os.path.splitext(os.path.basename(p))[0]
            rc2, out2 = sh("cargo test --offline -p %s --test %s 2>&1" % (pkg_of(p), name), cwd=wt)
            passes_without = passes_without and rc2 == 0
            rec.setdefault("demo_without_change", []).append({"demo": p, "rc": rc2})
        rec["ok"] = fails_with and passes_without
        if not rec["ok"]:
            rec["why"] = "demonstration: fails with change=%s, passes without=%s" % (fails_with, passes_without)
            continue
        dst = os.path.join(SEEDED, rec["id"])
        os.makedirs(dst, exist_ok=True)
        shutil.copy(d, os.path.join(dst, "patch.diff"))
        for p in mine:
            shutil.copy(os.path.join(wt, p), os.path.join(dst, os.path.basename(p)))
        notes = os.path.join(mdir, "notes.md")
        if os.path.exists(notes):
            shutil.copy(notes, os.path.join(dst, "notes.md"))
        meta = {"id": rec["id"], "breaks_property": prop, "demonstration": [{"file": os.path.basename(p), "placed_at": p, "run": "cargo test --offline -p %s --test %s" % (pkg_of(p), os.path.splitext(os.path.basename(p))[0])} for p in mine],
                "confirmed": {"suite_with_change": rec["suite_with_change"], "demo_fails_with_change": True, "demo_passes_without_change": True,
                              "commands": ["git apply patch.diff", "cargo test --workspace --offline --no-fail-fast", "cargo test --offline -p <pkg> --test <demo>", "git checkout -- ."]},
                "needs_to_manifest": "see notes.md (written by the sub-agent that produced the change)", "checks": {}}
        json.dump(meta, open(os.path.join(dst, "meta.json"), "w"), indent=1)
    return results


def evaluate(ids, checks=None):
    table = {}
    for mid in ids:
        dst = os.path.join(SEEDED, mid)
        meta = json.load(open(os.path.join(dst, "meta.json")))
        rc, out = sh(["git", "-C", REPO, "status", "--porcelain", "--untracked-files=no"])
        if out.strip():
            print("refusing: repo has local modifications:\n" + out)
            return table
        rc, out = sh(["git", "-C", REPO, "apply", os.path.join(dst, "patch.diff")])
        if rc != 0:
            print(mid, "does not apply to /repo:", out[-300:])
            continue
        try:
            res = {}
            for c in (checks or ALL):
                t0 = time.time()
                rc, out = sh([os.path.join(ROOT, "check"), c, "quick"], cwd=ROOT, timeout=3600)
                viol = [l for l in out.splitlines() if l.startswith("VIOLATION")]
                res[c] = {"exit": rc, "violations": len(viol), "first": (viol[0][:400] if viol else ""), "wall_s": round(time.time() - t0, 1),
                          "tool_error": [l[:300] for l in out.splitlines() if l.startswith("TOOL-ERROR")][:1]}
                print("  %s %s exit=%d %s" % (mid, c, rc, viol[0][:160] if viol else ""), flush=True)
        finally:
            sh(["git", "-C", REPO, "checkout", "--", "."])
        if os.environ.get("SEEDED_MERGE"):
            # re-evaluation of some checks only: keep the other results (re-read: parallel runners write other ids only)
            meta = json.load(open(os.path.join(dst, "meta.json")))
            merged = dict(meta.get("checks", {}))
            merged.update(res)
            res = merged
        meta["checks"] = res
        meta["detected_by"] = sorted(c for c, r in res.items() if r["exit"] == 1)
        meta["owner_detects"] = meta["breaks_property"] in meta["detected_by"]
        json.dump(meta, open(os.path.join(dst, "meta.json"), "w"), indent=1)
        table[mid] = meta["detected_by"]
        print("%s: detected by %s (owner %s: %s)" % (mid, meta["detected_by"], meta["breaks_property"], meta["owner_detects"]), flush=True)
    return table


def table():
    """Markdown table of seeded/*/meta.json for DESIGN.md 0.6."""
    rows = []
    for mid in sorted(os.listdir(SEEDED)):
        mp = os.path.join(SEEDED, mid, "meta.json")
        if not os.path.exists(mp):
            continue
        m = json.load(open(mp))
        ch = m.get("checks", {})
        own = m["breaks_property"]
        first = ch.get(own, {}).get("first", "")
        sig = re.search(r"sig=(\S+)", first)
        others = [c for c in m.get("detected_by", []) if c != own]
        ran = sorted(ch)
        rows.append("| %s | %s | %s | %s | %s | %s |" % (mid, own, "yes" if m.get("owner_detects") else "**no**", sig.group(1).replace("|", "\\|") if sig else "", " ".join(others) or "-",
                                                    "all" if len(ran) == 20 else " ".join(ran)))
    print("| change | breaks | owner check reports it | first signature reported by the owner check | other checks reporting a violation | checks run |")
    print("|---|---|---|---|---|---|")
    print("\n".join(rows))


if __name__ == "__main__":
    if sys.argv[1] == "table":
        table()
        sys.exit(0)
    if sys.argv[1] == "confirm":
        for r in confirm(sys.argv[2], sys.argv[3]):
            print(r["id"], "CONFIRMED" if r["ok"] else "REJECTED: " + r["why"])
    elif sys.argv[1] == "eval":
        ids = sys.argv[2:] or sorted(os.listdir(SEEDED))
        checks = os.environ.get("SEEDED_CHECKS")
        evaluate(ids, checks.split(",") if checks else None)
