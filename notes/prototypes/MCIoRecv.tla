---- MODULE MCIoRecv ----
EXTENDS IoRecv
MCMsgs == << [size |-> 12, acc |-> 9], [size |-> 8, acc |-> 5], [size |-> 4, acc |-> 4] >>
====
