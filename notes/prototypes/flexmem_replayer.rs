use flatty::{prelude::*, FlatVec, FlexVec};
use serde_json::Value;
use std::collections::BTreeMap;
use std::io::{BufRead, BufReader};
use std::panic::{catch_unwind, AssertUnwindSafe};
type FV = FlexVec<FlatVec<u8, u8>, u8>;

fn ints(v: &Value) -> Vec<i64> { v.as_array().unwrap().iter().map(|x| x.as_i64().unwrap()).collect() }

fn run(case: &Value, fill: u8) -> Result<(), String> {
    let pre = ints(&case["pre"]);
    let post = ints(&case["post"]);
    let l = pre.len();
    let mut buf = vec![0xEEu8; l + 16];
    for (k, b) in pre.iter().enumerate() { buf[8 + k] = if *b < 0 { fill } else { *b as u8 }; }
    let op = case["op"].as_str().unwrap().to_string();
    let arg = case["arg"].clone();
    let exp_ok = case["ok"].as_bool().unwrap();
    let res = catch_unwind(AssertUnwindSafe(|| -> Result<(bool, usize, Vec<Vec<u8>>, usize, Vec<usize>), String> {
        let v = FV::from_mut_bytes(&mut buf[8..8 + l]).map_err(|e| format!("pre-image rejected: {:?}", e))?;
        let ok = match op.as_str() {
            "push" => { let vs: Vec<u8> = ints(&arg).iter().map(|x| *x as u8).collect(); v.push(flatty::vec::FromIterator(vs.into_iter())).is_ok() }
            "pop" => v.pop().is_ok(),
            "truncate" => { v.truncate(arg.as_u64().unwrap() as usize); true }
            "clear" => { v.clear(); true }
            "item_push" => { let a = ints(&arg); v.iter_mut().nth(a[0] as usize - 1).unwrap().push(a[1] as u8).is_ok() }
            "item_pop" => { let a = ints(&arg); v.iter_mut().nth(a[0] as usize - 1).unwrap().pop().is_some() }
            _ => unreachable!(),
        };
        let items: Vec<Vec<u8>> = v.iter().map(|x| x.as_slice().to_vec()).collect();
        let caps: Vec<usize> = v.iter().map(|x| x.capacity()).collect();
        let valid = FV::validate(v.as_bytes()).is_ok();
        if !valid { return Err("post-image does not validate".into()); }
        Ok((ok, v.len(), items, v.size(), caps))
    }));
    let (ok, len, items, size, caps) = match res { Err(_) => return Err("panic".into()), Ok(Err(e)) => return Err(e), Ok(Ok(x)) => x };
    if ok != exp_ok { return Err(format!("result ok={} expected {}", ok, exp_ok)); }
    let obs = &case["obs"];
    if len as u64 != obs["len"].as_u64().unwrap() { return Err(format!("len {} expected {}", len, obs["len"])); }
    let exp_items: Vec<Vec<u8>> = obs["items"].as_array().unwrap().iter().map(|i| ints(i).iter().map(|x| *x as u8).collect()).collect();
    if items != exp_items { return Err(format!("items {:?} expected {:?}", items, exp_items)); }
    if size as u64 != obs["size"].as_u64().unwrap() { return Err(format!("size {} expected {}", size, obs["size"])); }
    let exp_caps: Vec<usize> = ints(&obs["caps"]).iter().map(|x| *x as usize).collect();
    if caps != exp_caps { return Err(format!("caps {:?} expected {:?}", caps, exp_caps)); }
    for (k, b) in post.iter().enumerate() { if *b >= 0 && buf[8 + k] != *b as u8 { return Err(format!("byte {} = {} expected {}", k, buf[8 + k], b)); } }
    if buf[..8].iter().chain(buf[8 + l..].iter()).any(|b| *b != 0xEE) { return Err("canary changed".into()); }
    Ok(())
}

fn main() {
    std::panic::set_hook(Box::new(|_| {}));
    let f = BufReader::new(std::fs::File::open(std::env::args().nth(1).unwrap()).unwrap());
    let (mut n, mut bad) = (0usize, 0usize);
    let mut kinds: BTreeMap<String, (usize, String)> = BTreeMap::new();
    for line in f.lines() {
        let line = line.unwrap();
        if !line.starts_with('"') { continue; }
        let s: String = serde_json::from_str(&line).unwrap();
        let case: Value = serde_json::from_str(&s).unwrap();
        for fill in [0u8, 0xFF, 0x5A] {
            n += 1;
            if let Err(e) = run(&case, fill) {
                bad += 1;
                let key = format!("{}: {}", case["op"].as_str().unwrap(), e.split(' ').take(2).collect::<Vec<_>>().join(" "));
                let ent = kinds.entry(key).or_insert((0, format!("{} fill={} -> {}", s, fill, e)));
                ent.0 += 1;
            }
        }
    }
    println!("cases {} mismatches {}", n, bad);
    for (k, (c, ex)) in kinds { println!("  {:6} {}   e.g. {}", c, k, ex); }
}
