---------------------------- MODULE FlexMem ----------------------------
(* Prototype: FlexVec<FlatVec<u8,u8>,u8> living in an L-byte buffer.     *)
(* ALIGN = 1, OFFSET_SIZE = 1, item DATA_OFFSET = 1, LMax = 255.         *)
EXTENDS Integers, Sequences, TLC, Json

CONSTANTS L, Vals, MaxItems
ANY  == -1
SAME == -2
LMax == 255

\* tree: sequence of items [reg |-> n (sealed region incl. slot) or 0 (= last, owns the rest), v |-> Seq(byte)]
\* plus term \in {"max","zero"}; for "max" the last item has reg = 0; for "zero" all are sealed.
VARIABLES items, term
vars == <<items, term>>

ItemSize(it) == 1 + Len(it.v)                       \* FlatVec<u8,u8>: len byte + elements, align 1
RECURSIVE PosOf(_, _)
PosOf(its, i) == IF i = 1 THEN 0 ELSE PosOf(its, i - 1) + its[i - 1].reg     \* slot position of item i (all before are sealed)
EndSealed(its) == IF Len(its) = 0 THEN 0 ELSE PosOf(its, Len(its)) + its[Len(its)].reg
\* capacity of item i
CapOf(its, tm, i) == IF its[i].reg = 0 THEN L - PosOf(its, i) - 2 ELSE its[i].reg - 2

Size(its, tm) ==
  IF Len(its) = 0 THEN 1
  ELSE IF tm = "zero" THEN EndSealed(its) + 1
  ELSE PosOf(its, Len(its)) + 1 + ItemSize(its[Len(its)])

\* ---- encoder: sequence of L entries over 0..255 \cup {ANY}
EncItem(it, room) == <<Len(it.v)>> \o it.v \o [k \in 1..(room - 1 - Len(it.v)) |-> ANY]
RECURSIVE EncFrom(_, _, _)
EncFrom(its, tm, i) ==       \* encoding from item i to the end of the buffer
  IF i > Len(its) THEN
       LET p == EndSealed(its) IN IF p >= L THEN <<>> ELSE <<0>> \o [k \in 1..(L - p - 1) |-> ANY]
  ELSE IF its[i].reg = 0 THEN <<LMax>> \o EncItem(its[i], L - PosOf(its, i) - 1)
  ELSE <<its[i].reg>> \o EncItem(its[i], its[i].reg - 1) \o EncFrom(its, tm, i + 1)
Enc(its, tm) == IF Len(its) = 0 THEN <<0>> \o [k \in 1..(L - 1) |-> ANY] ELSE EncFrom(its, tm, 1)

Fill(img, g) == [k \in 1..Len(img) |-> IF img[k] = ANY THEN g ELSE img[k]]

\* ---- reference decoder on concrete bytes
Err(kind) == [ok |-> FALSE, kind |-> kind, items |-> <<>>, term |-> ""]
RECURSIVE Walk(_, _, _)
Walk(bs, p, acc) ==
  IF Len(bs) - p < 1 THEN Err("InsufficientSize") ELSE
  LET v == bs[p + 1] IN
  IF v = 0 THEN [ok |-> TRUE, kind |-> "", items |-> acc, term |-> (IF acc = <<>> THEN "max" ELSE "zero")] ELSE
  IF v = LMax THEN
      IF Len(bs) - p < 2 THEN Err("InsufficientSize")
      ELSE LET n == bs[p + 2] cap == Len(bs) - p - 2 IN
           IF n > cap THEN Err("InsufficientSize")
           ELSE [ok |-> TRUE, kind |-> "", items |-> Append(acc, [reg |-> 0, v |-> SubSeq(bs, p + 3, p + 2 + n)]), term |-> "max"]
  ELSE IF v > Len(bs) - p THEN Err("InsufficientSize")
  ELSE IF v < 2 THEN Err("InsufficientSize")          \* slot + item MIN_SIZE
  ELSE LET n == bs[p + 2] cap == v - 2 IN
       IF n > cap THEN Err("InsufficientSize")
       ELSE Walk(bs, p + v, Append(acc, [reg |-> v, v |-> SubSeq(bs, p + 3, p + 2 + n)]))
Dec(bs) == Walk(bs, 0, <<>>)

\* ---- operations (result, new items, new term)
Res(ok, its, tm) == [ok |-> ok, items |-> its, term |-> tm]
SealLast(its) == IF Len(its) = 0 \/ its[Len(its)].reg # 0 THEN its
                 ELSE [its EXCEPT ![Len(its)].reg = 1 + ItemSize(its[Len(its)])]
Push(vs) ==
  LET sealed == SealLast(items)
      used == EndSealed(sealed)
  IN IF Len(items) > 0 /\ items[Len(items)].reg = 0 /\ 1 + ItemSize(items[Len(items)]) >= LMax THEN Res(FALSE, items, term)
     ELSE IF L - used < 1 THEN Res(FALSE, items, term)                 \* no room for the slot
     ELSE IF L - used - 1 < 1 THEN Res(FALSE, items, term)             \* item MIN_SIZE
     ELSE IF Len(vs) > L - used - 2 THEN Res(FALSE, items, term)       \* FromIterator does not fit
     ELSE Res(TRUE, Append(sealed, [reg |-> 0, v |-> vs]), "max")
Truncate(n) ==
  IF n >= Len(items) THEN Res(TRUE, items, term)
  ELSE IF n = 0 THEN Res(TRUE, <<>>, "max")
  ELSE Res(TRUE, [i \in 1..n |-> IF i = n THEN [items[i] EXCEPT !.reg = 0] ELSE items[i]], "max")
ItemPush(i, x) ==
  IF Len(items[i].v) >= CapOf(items, term, i) \/ Len(items[i].v) >= LMax THEN Res(FALSE, items, term)
  ELSE Res(TRUE, [items EXCEPT ![i].v = Append(@, x)], term)
ItemPop(i) ==
  IF Len(items[i].v) = 0 THEN Res(FALSE, items, term)
  ELSE Res(TRUE, [items EXCEPT ![i].v = SubSeq(@, 1, Len(@) - 1)], term)


Obs(its, tm) == [len |-> Len(its), items |-> [i \in 1..Len(its) |-> its[i].v], size |-> Size(its, tm),
                 caps |-> [i \in 1..Len(its) |-> CapOf(its, tm, i)]]

Emit(op, arg, r) ==
  PrintT(ToJson([op |-> op, arg |-> arg, pre |-> Enc(items, term), ok |-> r.ok,
                 post |-> Enc(r.items, r.term), obs |-> Obs(r.items, r.term)]))

Do(op, arg, r) == /\ items' = r.items /\ term' = r.term /\ Emit(op, arg, r)

ValSeqs == UNION {[1..n -> Vals] : n \in 0..2}

Init == items = <<>> /\ term = "max"
\* also start from externally produced zero-terminated images
InitZ == \E a \in ValSeqs, slack \in 0..1 :
           /\ items = <<[reg |-> 2 + Len(a) + slack, v |-> a]>> /\ term = "zero"
           /\ 2 + Len(a) + slack + 1 <= L
Next == \/ \E vs \in ValSeqs : Len(items) < MaxItems /\ Do("push", vs, Push(vs))
        \/ Len(items) > 0 /\ Do("pop", 0, Truncate(Len(items) - 1))
        \/ Len(items) = 0 /\ Do("pop", 0, Res(FALSE, items, term))
        \/ \E n \in 0..(MaxItems + 1) : Do("truncate", n, Truncate(n))
        \/ Do("clear", 0, Truncate(0))
        \/ \E i \in 1..Len(items), x \in Vals : Do("item_push", <<i, x>>, ItemPush(i, x))
        \/ \E i \in 1..Len(items) : Do("item_pop", <<i>>, ItemPop(i))
Spec == (Init \/ InitZ) /\ [][Next]_vars

RoundTrip == \A g \in {0, 7, 255} : LET d == Dec(Fill(Enc(items, term), g)) IN d.ok /\ d.items = items /\ d.term = term
SizeOk == Size(items, term) <= L /\ LET d == Dec(SubSeq(Fill(Enc(items, term), 7), 1, Size(items, term))) IN
            d.ok /\ [i \in 1..Len(d.items) |-> d.items[i].v] = [i \in 1..Len(items) |-> items[i].v]
CapsOk == \A i \in 1..Len(items) : Len(items[i].v) <= CapOf(items, term, i)
=======================================================================
