SPECIFICATION Spec
CONSTANTS
  Alphabet = {0, 1, 2, 255}
  MaxLen = 8
INVARIANT Inv
CHECK_DEADLOCK FALSE
