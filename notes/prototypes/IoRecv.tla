---------------------------- MODULE IoRecv ----------------------------
EXTENDS Naturals, Sequences, TLC

CONSTANTS Msgs,      \* sequence of [size |-> n, acc |-> k] : acc = shortest prefix validate accepts
          Cap,       \* buffer capacity
          Align,
          WaitFull   \* TRUE = corrected receiver (waits for size() bytes), FALSE = code as it is

StreamLen == LET RECURSIVE s(_) s(i) == IF i > Len(Msgs) THEN 0 ELSE Msgs[i].size + s(i+1) IN s(1)
\* byte identity: <<msg index, offset>>
Stream == LET RECURSIVE go(_, _) go(i, o) ==
              IF i > Len(Msgs) THEN <<>>
              ELSE IF o = Msgs[i].size THEN go(i+1, 0)
              ELSE <<<<i, o>>>> \o go(i, o+1)
          IN go(1, 0)

VARIABLES rd, ws, we, buf, pc, cur, delivered, panic

vars == <<rd, ws, we, buf, pc, cur, delivered, panic>>

Init == /\ rd = 0 /\ ws = 0 /\ we = 0
        /\ buf = [i \in 0..Cap-1 |-> <<0, 0>>]
        /\ pc = "validate" /\ cur = 0 /\ delivered = <<>> /\ panic = FALSE

Occupied == [i \in 1..(we - ws) |-> buf[ws + i - 1]]

\* abstract validate (the C06 contract): head must be byte 0 of some message
Validate ==
  LET occ == Occupied IN
  IF Len(occ) = 0 THEN "insufficient"
  ELSE LET m == occ[1][1] IN
       IF Len(occ) >= Msgs[m].acc THEN "ok" ELSE "insufficient"

DoValidate ==
  /\ pc = "validate" /\ ~panic
  /\ IF Validate = "ok"
       THEN LET m == buf[ws][1] IN
            IF WaitFull /\ (we - ws) < Msgs[m].size
              THEN pc' = "read" /\ UNCHANGED cur
              ELSE pc' = "guard" /\ cur' = m
       ELSE pc' = "read" /\ UNCHANGED cur
  /\ UNCHANGED <<rd, ws, we, buf, delivered, panic>>

DoRead ==
  /\ pc = "read" /\ ~panic
  /\ IF we = Cap /\ ws = 0
       THEN pc' = "oom" /\ UNCHANGED <<rd, ws, we, buf, delivered, cur, panic>>
       ELSE LET s2 == IF we = Cap THEN 0 ELSE ws
                e2 == IF we = Cap THEN we - ws ELSE we
                b2 == IF we = Cap THEN [i \in 0..Cap-1 |-> IF i < we - ws THEN buf[ws + i] ELSE buf[i]] ELSE buf
            IN IF rd = StreamLen
                 THEN pc' = "closed" /\ ws' = s2 /\ we' = e2 /\ buf' = b2 /\ UNCHANGED <<rd, delivered, cur, panic>>
                 ELSE \E n \in 1..(Cap - e2) :
                        /\ rd + n <= StreamLen
                        /\ buf' = [i \in 0..Cap-1 |-> IF i >= e2 /\ i < e2 + n THEN Stream[rd + (i - e2) + 1] ELSE b2[i]]
                        /\ we' = e2 + n /\ ws' = s2 /\ rd' = rd + n
                        /\ pc' = "validate" /\ UNCHANGED <<delivered, cur, panic>>

DropGuard ==
  /\ pc = "guard" /\ ~panic
  /\ LET sz == Msgs[cur].size IN
     IF ws + sz > we THEN panic' = TRUE /\ UNCHANGED <<rd, ws, we, buf, pc, cur, delivered>>
     ELSE /\ delivered' = Append(delivered, cur)
          /\ IF ws + sz = we THEN ws' = 0 /\ we' = 0 ELSE ws' = ws + sz /\ we' = we
          /\ pc' = "validate" /\ UNCHANGED <<rd, buf, cur, panic>>

Next == DoValidate \/ DoRead \/ DropGuard
Spec == Init /\ [][Next]_vars /\ WF_vars(Next)

NoPanic == ~panic
WindowInv == ws <= we /\ we <= Cap /\ ws % Align = 0
\* buffer holds exactly the received-but-unconsumed bytes, in order
Consumed == LET RECURSIVE c(_) c(i) == IF i > Len(delivered) THEN 0 ELSE Msgs[delivered[i]].size + c(i+1) IN c(1)
HeadInv == Occupied = SubSeq(Stream, Consumed + 1, rd)
InOrder == \A i \in 1..Len(delivered) : delivered[i] = i
ClosedAllDelivered == pc = "closed" => Len(delivered) = Len(Msgs)
NoOom == pc # "oom"
Terminates == <>(pc = "closed" \/ panic)
=======================================================================
