---- MODULE TraceCodec ----
EXTENDS Codec, IOUtils
Rec == ndJsonDeserialize(IOEnv.TRACE)
VARIABLE l
TInit == l = 1 /\ ti = 1 /\ bs = <<>>
TNext == /\ l <= Len(Rec)
         /\ LET e == Rec[l] r == Dec(Types[e.t], e.b) IN r.ok = e.ok /\ r.kind = e.kind
         /\ l' = l + 1 /\ UNCHANGED <<ti, bs>>
TSpec == TInit /\ [][TNext]_<<l, ti, bs>>
Accepted == IF TLCGet("stats").diameter - 1 = Len(Rec) THEN TRUE
            ELSE Print(<<"REJECTED at", TLCGet("stats").diameter, Rec[TLCGet("stats").diameter]>>, FALSE)
====
