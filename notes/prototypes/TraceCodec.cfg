SPECIFICATION TSpec
CONSTANTS
  Alphabet = {0}
  MaxLen = 0
POSTCONDITION Accepted
CHECK_DEADLOCK FALSE
