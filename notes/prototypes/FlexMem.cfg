SPECIFICATION Spec
CONSTANTS
  L = 10
  Vals = {1, 2}
  MaxItems = 3
INVARIANTS RoundTrip SizeOk CapsOk
CHECK_DEADLOCK FALSE
