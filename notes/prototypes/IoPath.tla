---- MODULE IoPath ----
EXTENDS IoRecv, Json
VARIABLE path
MCMsgs == << [size |-> 12, acc |-> 9], [size |-> 8, acc |-> 5], [size |-> 4, acc |-> 4] >>
PInit == Init /\ path = <<>>
Step(name, arg) == path' = Append(path, <<name, arg, ws', we', pc'>>)
PNext == \/ DoValidate /\ Step("validate", 0)
         \/ DoRead /\ Step("read", rd' - rd)
         \/ DropGuard /\ Step("drop", 0)
\* print every generated transition together with the path that leads to it
PNextP == PNext /\ PrintT(ToJson(path'))
PSpec == PInit /\ [][PNextP]_<<vars, path>>
View == vars
====
