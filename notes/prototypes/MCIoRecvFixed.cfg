SPECIFICATION Spec
CONSTANTS
  Msgs <- MCMsgs
  Cap = 24
  Align = 4
  WaitFull = TRUE
INVARIANTS NoPanic WindowInv HeadInv InOrder ClosedAllDelivered NoOom
PROPERTY Terminates
CHECK_DEADLOCK FALSE
