SPECIFICATION PSpec
CONSTANTS
  Msgs <- MCMsgs
  Cap = 24
  Align = 4
  WaitFull = TRUE
VIEW View
INVARIANTS NoPanic WindowInv HeadInv
CHECK_DEADLOCK FALSE
