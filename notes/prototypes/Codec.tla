---------------------------- MODULE Codec ----------------------------
EXTENDS Naturals, Sequences, FiniteSets, TLC, Json, SequencesExt

MaxI(a, b) == IF a >= b THEN a ELSE b
MinI(a, b) == IF a <= b THEN a ELSE b
CeilMul(x, m) == ((x + m - 1) \div m) * m
FloorMul(x, m) == (x \div m) * m

\* ---- type descriptors (uniform record shape) ----
Prim(s)          == [k |-> "prim", size |-> s, elem |-> <<>>, n |-> 0, fields |-> <<>>]
BoolT            == [k |-> "bool", size |-> 1, elem |-> <<>>, n |-> 0, fields |-> <<>>]
Vec(t, ls)       == [k |-> "vec",  size |-> ls, elem |-> <<t>>, n |-> 0, fields |-> <<>>]
Struct(fs)       == [k |-> "struct", size |-> 0, elem |-> <<>>, n |-> 0, fields |-> fs]
Enum(ts, vars)   == [k |-> "enum", size |-> ts, elem |-> <<>>, n |-> 0, fields |-> vars]

RECURSIVE Align(_), IsSized(_), MinSize(_), StaticSize(_)
SeqMax(s, F(_)) == LET RECURSIVE go(_) go(i) == IF i > Len(s) THEN 1 ELSE MaxI(F(s[i]), go(i+1)) IN go(1)

Align(t) ==
  CASE t.k = "prim" -> t.size
    [] t.k = "bool" -> 1
    [] t.k = "vec"  -> MaxI(t.size, Align(t.elem[1]))
    [] t.k = "struct" -> SeqMax(t.fields, Align)
    [] t.k = "enum" -> MaxI(t.size, SeqMax(t.fields, LAMBDA v : SeqMax(v, Align)))

IsSized(t) ==
  CASE t.k \in {"prim", "bool"} -> TRUE
    [] t.k = "vec" -> FALSE
    [] t.k = "struct" -> \A i \in DOMAIN t.fields : IsSized(t.fields[i])
    [] t.k = "enum" -> \A i \in DOMAIN t.fields : \A j \in DOMAIN t.fields[i] : IsSized(t.fields[i][j])

\* offsets of fields in a C struct, returns <<offsets, end>>
FieldOffs(fs) ==
  LET RECURSIVE go(_, _, _)
      go(i, pos, acc) ==
        IF i > Len(fs) THEN <<acc, pos>>
        ELSE LET p == CeilMul(pos, Align(fs[i]))
             IN go(i + 1, p + (IF IsSized(fs[i]) THEN StaticSize(fs[i]) ELSE MinSize(fs[i])), Append(acc, p))
  IN go(1, 0, <<>>)

VecDataOff(t) == MaxI(t.size, Align(t.elem[1]))
EnumDataOff(t) == CeilMul(t.size, Align(t))

StaticSize(t) ==
  CASE t.k \in {"prim", "bool"} -> t.size
    [] t.k = "struct" -> CeilMul(FieldOffs(t.fields)[2], Align(t))
    [] t.k = "enum" -> CeilMul(EnumDataOff(t) + SeqMax(t.fields, LAMBDA v : IF v = <<>> THEN 0 ELSE CeilMul(FieldOffs(v)[2], SeqMax(v, Align))), Align(t))
    [] OTHER -> 0

MinSize(t) ==
  CASE IsSized(t) -> StaticSize(t)
    [] t.k = "vec" -> VecDataOff(t)
    [] t.k = "struct" -> FieldOffs(t.fields)[2]
    [] t.k = "enum" -> CeilMul(EnumDataOff(t) +
          (LET RECURSIVE mn(_) mn(i) == IF i > Len(t.fields) THEN 1000000 ELSE MinI(IF t.fields[i] = <<>> THEN 0 ELSE FieldOffs(t.fields[i])[2], mn(i+1)) IN mn(1)), Align(t))

\* little-endian number from bytes
BIG == 1000000
LE(bs) == LET RECURSIVE go(_) go(i) == IF i > Len(bs) THEN 0 ELSE LET h == go(i+1) IN IF h >= BIG \div 256 THEN BIG ELSE bs[i] + 256 * h IN go(1)

Ok(v)        == [ok |-> TRUE, val |-> v, kind |-> "", pos |-> 0]
Err(k, p)    == [ok |-> FALSE, val |-> <<>>, kind |-> k, pos |-> p]
Shift(r, d)  == IF r.ok THEN r ELSE [r EXCEPT !.pos = @ + d]

\* Reference decoder: bs is the byte sequence (1-based), assumed aligned.
RECURSIVE Dec(_, _)
DecFields(fs, bs) ==
  LET offs == FieldOffs(fs)[1]
      RECURSIVE go(_, _)
      go(i, acc) ==
        IF i > Len(fs) THEN Ok(acc)
        ELSE LET o == offs[i]
                 sub == IF i = Len(fs) THEN SubSeq(bs, o + 1, Len(bs))
                        ELSE SubSeq(bs, o + 1, o + StaticSize(fs[i]))
                 r == Dec(fs[i], sub)
             IN IF r.ok THEN go(i + 1, Append(acc, r.val)) ELSE Shift(r, o)
  IN go(1, <<>>)

Dec(t, bs) ==
  IF Len(bs) < MinSize(t) THEN Err("InsufficientSize", 0) ELSE
  CASE t.k = "prim" -> Ok(SubSeq(bs, 1, t.size))
    [] t.k = "bool" -> IF bs[1] \in {0, 1} THEN Ok(bs[1]) ELSE Err("InvalidData", 0)
    [] t.k = "vec" ->
        LET d == VecDataOff(t)
            e == t.elem[1]
            es == StaticSize(e)
            cap == FloorMul(Len(bs) - d, Align(t)) \div es
            len == LE(SubSeq(bs, 1, t.size))
            RECURSIVE go(_, _)
            go(i, acc) == IF i >= len THEN Ok(acc)
                          ELSE LET r == Dec(e, SubSeq(bs, d + i * es + 1, d + (i + 1) * es))
                               IN IF r.ok THEN go(i + 1, Append(acc, r.val)) ELSE Shift(r, d + i * es)
        IN IF len > cap THEN Err("InsufficientSize", d) ELSE go(0, <<>>)
    [] t.k = "struct" -> DecFields(t.fields, bs)
    [] t.k = "enum" ->
        LET tag == LE(SubSeq(bs, 1, t.size))
            d == EnumDataOff(t)
            data == SubSeq(bs, d + 1, d + FloorMul(Len(bs) - d, Align(t)))
        IN IF tag >= Len(t.fields) THEN Err("InvalidEnumTag", 0)
           ELSE LET v == t.fields[tag + 1]
                IN IF v = <<>> THEN Ok(<<tag>>)
                   ELSE IF Len(data) < FieldOffs(v)[2] THEN Err("InsufficientSize", d)
                   ELSE LET r == DecFields(v, data) IN IF r.ok THEN Ok(<<tag, r.val>>) ELSE Shift(r, d)

\* ---- model: enumerate byte strings ----
CONSTANT Alphabet, MaxLen
Types == <<
  Vec(Prim(1), 2),
  Vec(BoolT, 1),
  Struct(<<Prim(4), Vec(Prim(1), 1)>>),
  Enum(1, << <<>>, <<Prim(1), Prim(2)>>, <<Prim(4), Vec(Prim(1), 2)>> >>),
  Struct(<<Prim(1), BoolT, Prim(2)>>)
>>

VARIABLES ti, bs
Init == ti \in DOMAIN Types /\ bs = <<>>
Next == /\ Len(bs) < MaxLen
        /\ \E b \in Alphabet : bs' = Append(bs, b)
        /\ UNCHANGED ti
Spec == Init /\ [][Next]_<<ti, bs>>

Emit == PrintT(ToJson([t |-> ti, b |-> bs, r |-> Dec(Types[ti], bs)]))
Inv == Emit
=======================================================================
