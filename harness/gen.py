#!/usr/bin/env python3
"""Generate harness/src/catalog.rs from the type descriptors TLC prints (spec/MCLayout: "DESC" lines).

Every struct / enum descriptor becomes the `#[flat(..)]` item a user would write plus an impl of the
harness trait `Shape` (field access, `as_ref()/as_mut()` matches, `*Init` construction).  Leaf and
container types implement `Shape` generically in shape.rs.
"""
import json, re, sys


def parse_tlc_lines(path, tag):
    out = []
    pat = re.compile(r'^<<"%s", "(.*)">>$' % tag)
    for line in open(path, errors="replace"):
        m = pat.match(line.rstrip("\n"))
        if m:
            s = json.loads('"' + m.group(1) + '"')
            out.append(json.loads(s))
    return out


def rust_type(t):
    k = t["k"]
    if k in ("prim", "pint", "pfloat"):
        return t["name"]
    if k == "unit":
        return "()"
    if k == "bool":
        return "Bool"
    if k == "arr":
        return "[%s; %d]" % (rust_type(t["elem"][0]), t["n"])
    if k == "vec":
        return "FlatVec<%s, %s>" % (rust_type(t["elem"][0]), rust_type(t["lt"][0]))
    if k == "str":
        return "FlatString<%s>" % rust_type(t["lt"][0])
    if k == "flex":
        return "FlexVec<%s, %s>" % (rust_type(t["elem"][0]), rust_type(t["lt"][0]))
    return t["name"]


def is_sized(t):
    k = t["k"]
    if k in ("vec", "str", "flex"):
        return False
    if k in ("struct", "enum"):
        return t["sized"]
    return True


def collect_defs(t, defs):
    for e in t["elem"] + t["lt"] + t["fields"]:
        collect_defs(e, defs)
    for v in t["vars"]:
        for e in v:
            collect_defs(e, defs)
    if t["k"] in ("struct", "enum") and t["name"] not in defs:
        defs[t["name"]] = t


def attr(t):
    a = []
    if not t["sized"]:
        a.append("sized = false")
    if t["k"] == "enum" and t["size"] != 1:
        a.append('tag_type = "u%d"' % (8 * t["size"]))
    if t["portable"]:
        a.append("portable = true")
    if t["dflt"] > 0:
        a.append("default = true")
    return "#[flat(%s)]" % ", ".join(a) if a else "#[flat]"


def mident(t):
    """Identifier the macro sees: generic definitions are emitted as `NameG<P0, ..>` plus `type Name = NameG<concrete, ..>`."""
    return t["name"] + ("G" if t.get("gen") else "")


def direct_fields(t):
    return list(t["fields"]) + [f for v in t["vars"] for f in v]


def gparams(t):
    """Type parameters of a generic definition: the distinct sized types used as a field, an array element or a FlatVec element."""
    ps = []
    def add(f):
        if is_sized(f) and f["k"] != "arr" and rust_type(f) not in ps:
            ps.append(rust_type(f))
    for f in direct_fields(t):
        if f["k"] in ("arr", "vec"):
            add(f["elem"][0])
        else:
            add(f)
    return ps


def gtype(f, t):
    """Field type as written in the definition (type parameters substituted for a generic definition)."""
    if not t.get("gen"):
        return rust_type(f)
    ps = gparams(t)
    def sub(x):
        return "P%d" % ps.index(rust_type(x)) if rust_type(x) in ps and x["k"] != "arr" else rust_type(x)
    if f["k"] == "arr":
        return "[%s; %d]" % (sub(f["elem"][0]), f["n"])
    if f["k"] == "vec":
        return "FlatVec<%s, %s>" % (sub(f["elem"][0]), rust_type(f["lt"][0]))
    return sub(f)


def gdecl(t):
    """`<P0: Flat + .., ..>` of a generic definition, and the alias that instantiates it."""
    if not t.get("gen"):
        return "", []
    ps = gparams(t)
    b = "Flat" + (" + Default" if t["dflt"] > 0 else "") + (" + Portable" if t["portable"] else "")
    decl = "<%s>" % ", ".join("P%d: %s" % (i, b) for i in range(len(ps)))
    return decl, ["pub type %s = %s<%s>;" % (t["name"], mident(t), ", ".join(ps))]


def shape(ty):
    return "<%s as Shape>" % ty


def gen_struct(t, out):
    name = t["name"]
    fs = t["fields"]
    tys = [rust_type(f) for f in fs]
    tuple_style = t["style"] == "tuple"
    acc = [str(i) if tuple_style else "f%d" % i for i in range(len(fs))]
    out.append(attr(t))
    if t["sized"]:
        out.append("#[derive(Clone, Copy, PartialEq, Debug)]")
    decl, alias = gdecl(t)
    dtys = [gtype(f, t) for f in fs]
    if tuple_style:
        out.append("pub struct %s%s(%s);" % (mident(t), decl, ", ".join("pub " + x for x in dtys)))
    else:
        out.append("pub struct %s%s { %s }" % (mident(t), decl, ", ".join("pub f%d: %s" % (i, x) for i, x in enumerate(dtys))))
    out.extend(alias)
    out.append("impl Shape for %s {" % name)
    if t["sized"]:
        out.append("    sized_hooks!();")
        out.append("    fn apply_here(&mut self, op: &Value, fl: u32) -> Value { if op[\"op\"] == \"set\" { *self = Self::from_val(&op[\"v\"]); json!({\"ok\": true}) } else { self.apply_common(op, fl) } }")
    else:
        init = mident(t) + "Init"
        out.append("    type Emp<'a> = %s<%s>;" % (init, ", ".join("%s::Emp<'a>" % shape(x) for x in tys)))
        if tuple_style:
            body = "%s(%s)" % (init, ", ".join("%s::emp(&a[%d], fl)" % (shape(x), i) for i, x in enumerate(tys)))
        else:
            body = "%s { %s }" % (init, ", ".join("f%d: %s::emp(&a[%d], fl)" % (i, shape(x), i) for i, x in enumerate(tys)))
        out.append("    fn emp<'a>(v: &'a Value, fl: u32) -> Self::Emp<'a> { let a = arr(v); %s }" % body)
    if t["dflt"] > 0:
        out.append("    default_hooks!();")
        if t["sized"]:
            out.append("    fn rust_default() -> Option<Value> { Some(<Self as Default>::default().read(&mut Ctx::unbounded())) }")
    out.append("    fn read(&self, c: &mut Ctx) -> Value { c.node(\"%s\", self); json!([%s]) }" % (name, ", ".join("self.%s.read(c)" % a for a in acc)))
    arms = " ".join("%d => self.%s.apply(&path[1..], op, fl)," % (i, a) for i, a in enumerate(acc))
    out.append("    fn apply_child(&mut self, path: &[usize], op: &Value, fl: u32) -> Value { match path[0] { %s _ => json!({\"unsupported\": \"field\"}) } }" % arms)
    out.append("    fn probe(&self, base: usize) -> Value { json!({\"offs\": [%s], \"subs\": [%s]}) }" % (
        ", ".join("(&self.%s as *const _ as *const u8 as usize) - base" % a for a in acc),
        ", ".join("self.%s.probe(base)" % a for a in acc)))
    out.append("    fn rand_content(rng: &mut crate::drive::Rng, d: usize) -> Value { json!([%s]) }" % ", ".join("%s::rand_content(rng, d)" % shape(x) for x in tys))
    arms = " ".join("%d => child_op(%d, &self.%s, rng)," % (i, i, a) for i, a in enumerate(acc))
    first = "if rng.chance(15) { return Some((vec![], mk_op(\"%s\", 0, Self::rand_content(rng, 2)))); } " % ("set" if t["sized"] else "assign")
    out.append("    fn rand_op(&self, rng: &mut crate::drive::Rng) -> Option<(Vec<usize>, Value)> { %smatch rng.below(%d) { %s _ => None } }" % (first, max(len(fs), 1), arms))
    out.append("}")
    if t["sized"]:
        out.append("impl SizedShape for %s {" % name)
        if tuple_style:
            body = "%s(%s)" % (mident(t), ", ".join("%s::from_val(&a[%d])" % ("<%s as SizedShape>" % x, i) for i, x in enumerate(tys)))
        else:
            body = "%s { %s }" % (mident(t), ", ".join("f%d: <%s as SizedShape>::from_val(&a[%d])" % (i, x, i) for i, x in enumerate(tys)))
        out.append("    fn from_val(v: &Value) -> Self { let a = arr(v); let _ = &a; %s }" % body)
        out.append("}")
    out.append("")


def variant_style(t, v):
    if len(v) == 0:
        return "unit"
    if t["style"] == "tuple" or len(v) == 1:
        return "tuple"
    return "named"


def gen_enum(t, out):
    name = t["name"]
    vs = t["vars"]
    out.append(attr(t))
    if t["sized"]:
        out.append("#[derive(Clone, Copy, PartialEq, Debug)]")
    decl, alias = gdecl(t)
    out.append("pub enum %s%s {" % (mident(t), decl))
    for i, v in enumerate(vs):
        d = "    #[default]\n" if t["dflt"] == i + 1 else ""
        st = variant_style(t, v)
        tys = [gtype(f, t) for f in v]
        if st == "unit":
            out.append("%s    V%d," % (d, i))
        elif st == "tuple":
            out.append("%s    V%d(%s)," % (d, i, ", ".join(tys)))
        else:
            out.append("%s    V%d { %s }," % (d, i, ", ".join("f%d: %s" % (j, x) for j, x in enumerate(tys))))
    out.append("}")
    out.extend(alias)

    def pat(prefix, i, v):
        st = variant_style(t, v)
        if st == "unit":
            return "%s::V%d" % (prefix, i)
        if st == "tuple":
            return "%s::V%d(%s)" % (prefix, i, ", ".join("f%d" % j for j in range(len(v))))
        return "%s::V%d { %s }" % (prefix, i, ", ".join("f%d" % j for j in range(len(v))))

    sized = t["sized"]
    out.append("impl Shape for %s {" % name)
    if sized:
        out.append("    sized_hooks!();")
        out.append("    fn apply_here(&mut self, op: &Value, fl: u32) -> Value { if op[\"op\"] == \"set\" { *self = Self::from_val(&op[\"v\"]); json!({\"ok\": true}) } else { self.apply_common(op, fl) } }")
    else:
        init = mident(t) + "Init"
        params = []
        for v in vs:
            for f in v:
                params.append("%s::Emp<'a>" % shape(rust_type(f)))
        out.append("    type Emp<'a> = %s<%s>;" % (init, ", ".join(params)))
        arms = []
        for i, v in enumerate(vs):
            st = variant_style(t, v)
            es = ["%s::emp(&a[%d], fl)" % (shape(rust_type(f)), j) for j, f in enumerate(v)]
            if st == "unit":
                arms.append("%d => %s::V%d," % (i + 1, init, i))
            elif st == "tuple":
                arms.append("%d => %s::V%d(%s)," % (i + 1, init, i, ", ".join(es)))
            else:
                arms.append("%d => %s::V%d { %s }," % (i + 1, init, i, ", ".join("f%d: %s" % (j, e) for j, e in enumerate(es))))
        out.append("    fn emp<'a>(v: &'a Value, fl: u32) -> Self::Emp<'a> { let a = arr(&v[\"fs\"]); let _ = (&a, fl); match v[\"tag\"].as_u64().unwrap_or(0) { %s _ => panic!(\"bad tag in case\") } }" % " ".join(arms))
    if t["dflt"] > 0:
        out.append("    default_hooks!();")
        if sized:
            out.append("    fn rust_default() -> Option<Value> { Some(<Self as Default>::default().read(&mut Ctx::unbounded())) }")
    # read
    if sized:
        scrut, prefix = "self", mident(t)
    else:
        scrut, prefix = "self.as_ref()", mident(t) + "Ref"
    arms = []
    for i, v in enumerate(vs):
        arms.append("%s => json!({\"tag\": %d, \"fs\": [%s]})," % (pat(prefix, i, v), i + 1, ", ".join("f%d.read(c)" % j for j in range(len(v)))))
    out.append("    fn read(&self, c: &mut Ctx) -> Value { c.node(\"%s\", self); match %s { %s } }" % (name, scrut, " ".join(arms)))
    # apply_child
    if sized:
        scrut, prefix = "self", mident(t)
    else:
        scrut, prefix = "self.as_mut()", mident(t) + "Mut"
    arms = []
    for i, v in enumerate(vs):
        inner = " ".join("%d => f%d.apply(&path[1..], op, fl)," % (j, j) for j in range(len(v)))
        arms.append("%s => match path[0] { %s _ => json!({\"unsupported\": \"field\"}) }," % (pat(prefix, i, v), inner))
    out.append("    fn apply_child(&mut self, path: &[usize], op: &Value, fl: u32) -> Value { let _ = (op, fl); match %s { %s } }" % (scrut, " ".join(arms)))
    # probe
    if sized:
        scrut, prefix = "self", mident(t)
    else:
        scrut, prefix = "self.as_ref()", mident(t) + "Ref"
    arms = []
    for i, v in enumerate(vs):
        arms.append("%s => json!({\"tag\": %d, \"offs\": [%s], \"subs\": [%s]})," % (
            pat(prefix, i, v), i + 1,
            ", ".join("(f%d as *const _ as *const u8 as usize) - base" % j for j in range(len(v))),
            ", ".join("f%d.probe(base)" % j for j in range(len(v)))))
    out.append("    fn probe(&self, base: usize) -> Value { let _ = base; match %s { %s } }" % (scrut, " ".join(arms)))
    rarms = []
    for i, v in enumerate(vs):
        rarms.append("%d => json!({\"tag\": %d, \"fs\": [%s]})," % (i, i + 1, ", ".join("%s::rand_content(rng, d)" % shape(rust_type(f)) for f in v)))
    out.append("    fn rand_content(rng: &mut crate::drive::Rng, d: usize) -> Value { let _ = d; match rng.below(%d) { %s _ => unreachable!() } }" % (len(vs), " ".join(rarms)))
    oarms = []
    for i, v in enumerate(vs):
        inner = " ".join("%d => child_op(%d, f%d, rng)," % (j, j, j) for j in range(len(v)))
        oarms.append("%s => match rng.below(%d) { %s _ => None }," % (pat(prefix, i, v), max(len(v), 1), inner))
    first = "if rng.chance(30) { return Some((vec![], mk_op(\"%s\", 0, Self::rand_content(rng, 2)))); } " % ("set" if sized else "assign")
    out.append("    fn rand_op(&self, rng: &mut crate::drive::Rng) -> Option<(Vec<usize>, Value)> { %smatch %s { %s } }" % (first, scrut, " ".join(oarms)))
    out.append("}")
    if sized:
        out.append("impl SizedShape for %s {" % name)
        arms = []
        for i, v in enumerate(vs):
            st = variant_style(t, v)
            es = ["<%s as SizedShape>::from_val(&a[%d])" % (rust_type(f), j) for j, f in enumerate(v)]
            if st == "unit":
                arms.append("%d => %s::V%d," % (i + 1, mident(t), i))
            elif st == "tuple":
                arms.append("%d => %s::V%d(%s)," % (i + 1, mident(t), i, ", ".join(es)))
            else:
                arms.append("%d => %s::V%d { %s }," % (i + 1, mident(t), i, ", ".join("f%d: %s" % (j, e) for j, e in enumerate(es))))
        out.append("    fn from_val(v: &Value) -> Self { let a = arr(&v[\"fs\"]); let _ = &a; match v[\"tag\"].as_u64().unwrap_or(0) { %s _ => panic!(\"bad tag in case\") } }" % " ".join(arms))
        out.append("}")
    out.append("")


def gen_negative(src, negdir):
    """Definitions the specification says the macro must reject: one bin target each (compile-fail tests)."""
    import os
    neg = parse_tlc_lines(src, "NEG")
    bindir = os.path.join(negdir, "src", "bin")
    os.makedirs(bindir, exist_ok=True)
    for f in os.listdir(bindir):
        os.remove(os.path.join(bindir, f))
    index = []
    for n in neg:
        out = ["// GENERATED by harness/gen.py from spec/Catalog.tla NegCatalog: %s" % n["why"],
               "// The #[flat] macro must REJECT this definition (the build of this target is expected to fail).",
               "#![allow(dead_code)]",
               "use flatty::{flat, portable::{be, le, Bool}, FlatString, FlatVec, FlexVec};", ""]
        defs = {}
        collect_defs(n["t"], defs)
        body = []
        for name in sorted(defs):
            t = defs[name]
            tmp = []
            (gen_struct if t["k"] == "struct" else gen_enum)(t, tmp)
            # only the definition itself, not the harness impls
            keep = []
            for line in tmp:
                if line.startswith("impl "):
                    break
                keep.append(line)
            body += [l for l in keep if not l.startswith("#[derive(")]
        out += body
        out += ["fn main() {}", ""]
        open(os.path.join(bindir, n["id"].lower() + ".rs"), "w").write("\n".join(out))
        index.append({"id": n["id"], "bin": n["id"].lower(), "why": n["why"], "portable": n["t"]["portable"]})
    json.dump(index, open(os.path.join(negdir, "index.json"), "w"), indent=1)


def main():
    src, dst = sys.argv[1], sys.argv[2]
    if len(sys.argv) > 3:
        gen_negative(src, sys.argv[3])
    cat = parse_tlc_lines(src, "DESC")
    cat.sort(key=lambda c: c["id"])
    defs = {}
    for c in cat:
        collect_defs(c["t"], defs)
    out = [
        "// GENERATED by harness/gen.py from the descriptors of spec/Catalog.tla -- do not edit.",
        "#![allow(non_camel_case_types, dead_code, unused_variables, clippy::all)]",
        "use crate::shape::*;",
        "use crate::{default_hooks, sized_hooks};",
        "use flatty::{flat, traits::Flat, Portable, portable::{be, le, Bool}, FlatString, FlatVec, FlexVec};",
        "use serde_json::{json, Value};",
        "",
    ]
    for name in sorted(defs):
        t = defs[name]
        (gen_struct if t["k"] == "struct" else gen_enum)(t, out)
    out.append("pub trait Visitor { type Out; fn visit<T: Shape + ?Sized>(self) -> Self::Out; }")
    out.append("pub fn dispatch<V: Visitor>(id: &str, v: V) -> Option<V::Out> {")
    out.append("    Some(match id {")
    for c in cat:
        out.append("        \"%s\" => v.visit::<%s>()," % (c["id"], rust_type(c["t"])))
    out.append("        _ => return None,")
    out.append("    })")
    out.append("}")
    out.append("pub const IDS: &[&str] = &[%s];" % ", ".join('"%s"' % c["id"] for c in cat))
    open(dst, "w").write("\n".join(out) + "\n")
    print("generated %d catalog entries, %d definitions -> %s" % (len(cat), len(defs), dst))


if __name__ == "__main__":
    main()
