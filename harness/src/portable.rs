//! Replay of the portable-scalar vectors (spec/Portable.tla, MCPortable) against flatty::portable.
//! Where the vector says NATIVE the oracle is the native operation on the same operands (the
//! property's own oracle); a native overflow / division panic must be mirrored by a panic.
use crate::replay::{guarded, Obs, Out};
use crate::shape::bytes_of;
use flatty::portable::{be, le, Bool};
use flatty::prelude::*;
use num_traits::{Bounded, FromPrimitive, One, ToPrimitive, Zero};
use serde_json::Value;
use std::mem::{align_of, size_of};

fn opt_bytes(v: &Value) -> Option<Option<Vec<u8>>> {
    if v.get("native").is_some() {
        None
    } else if v["some"] == serde_json::json!(true) {
        Some(Some(bytes_of(&v["v"])))
    } else {
        Some(None)
    }
}

macro_rules! int_case {
    (@neg $P:ty, $N:ty, true, $case:expr, $x:expr, $p:expr, $bad:expr) => {{
        let (x, p) = ($x, $p);
        let natr = guarded(|| -x);
        let porr = guarded(|| <$N>::from(-p));
        match (&natr, &porr) {
            (Obs::Panic(_), Obs::Panic(_)) => {}
            (Obs::Ret(a), Obs::Ret(b)) if a == b => {
                if a.to_le_bytes().to_vec() != bytes_of(&$case["neg"]["v"]) { $bad("neg", format!("-{:?} = {:?}, specification {:?}", x, a, $case["neg"]["v"])); }
            }
            _ => $bad("neg", format!("-{:?}: native {:?} portable {:?}", x, natr, porr)),
        }
        if $case["neg"]["ovf"].as_bool().unwrap_or(false) != x.checked_neg().is_none() { $bad("neg", format!("-{:?}: overflow flag differs", x)); }
    }};
    (@neg $P:ty, $N:ty, false, $case:expr, $x:expr, $p:expr, $bad:expr) => {{ let _ = ($x, $p); }};
    ($P:ty, $N:ty, $signed:tt, $case:expr, $out:expr, $name:expr) => {{
        let case: &Value = $case;
        let out: &mut Out = $out;
        let name: &str = $name;
        let mut bad = |chk: &str, d: String| out.viol("C16", chk, name, "", d);
        let nat = |v: &Value| -> $N { <$N>::from_le_bytes(bytes_of(v).as_slice().try_into().expect("width")) };
        match case["stage"].as_str().unwrap_or("") {
            "unary" => {
                let x = nat(&case["a"]);
                let p = <$P>::from(x);
                if align_of::<$P>() != 1 || <$P as FlatBase>::ALIGN != 1 { bad("align", format!("align {}", align_of::<$P>())); }
                if size_of::<$P>() != size_of::<$N>() || <$P as FlatSized>::SIZE != size_of::<$N>() { bad("size", format!("size {}", size_of::<$P>())); }
                let stored = bytes_of(&case["stored"]);
                if p.to_bytes().to_vec() != stored { bad("stored", format!("{:?} stored as {:?}, reference {:?}", x, p.to_bytes(), stored)); }
                if p.as_bytes() != &stored[..] { bad("stored", format!("{:?} in memory {:?}, reference {:?}", x, p.as_bytes(), stored)); }
                if <$N>::from(p) != x { bad("roundtrip", format!("{:?} -> portable -> {:?}", x, <$N>::from(p))); }
                let q = <$P>::from_bytes(stored.as_slice().try_into().unwrap());
                if <$N>::from(q) != x || q != p { bad("load", format!("bytes {:?} load as {:?}, expected {:?}", stored, <$N>::from(q), x)); }
                if let Some(e) = opt_bytes(&case["to_u64"]) {
                    let got = p.to_u64().map(|v| v.to_le_bytes().to_vec());
                    if got != e || p.to_usize().map(|v| (v as u64).to_le_bytes().to_vec()) != e { bad("to_u64", format!("{:?}.to_u64() = {:?}, reference {:?}", x, p.to_u64(), e)); }
                }
                if let Some(e) = opt_bytes(&case["to_i64"]) {
                    let got = p.to_i64().map(|v| v.to_le_bytes().to_vec());
                    if got != e { bad("to_i64", format!("{:?}.to_i64() = {:?}, reference {:?}", x, p.to_i64(), e)); }
                }
                if let Some(e) = opt_bytes(&case["from_u64"]) {
                    let n = if $signed { (x as i64 as u64) & (u64::MAX >> (64 - 8 * size_of::<$N>())) } else { x as u64 };
                    let got = <$P>::from_u64(n).map(|v| <$N>::from(v).to_le_bytes().to_vec());
                    let got2 = <$P>::from_usize(n as usize).map(|v| <$N>::from(v).to_le_bytes().to_vec());
                    if got != e || got2 != e { bad("from_u64", format!("from_u64({}) = {:?}, reference {:?}", n, got, e)); }
                }
                if let Some(e) = opt_bytes(&case["from_i64"]) {
                    let n = (<$N>::from_le_bytes(bytes_of(&case["a"]).as_slice().try_into().unwrap())) as i64;
                    // sign-extended bit pattern of `a` as i64
                    let w = size_of::<$N>() * 8;
                    let raw = { let mut b = [0u8; 8]; let a = bytes_of(&case["a"]); let neg = a[a.len() - 1] >= 128; for i in 0..8 { b[i] = if i < a.len() { a[i] } else if neg { 255 } else { 0 }; } i64::from_le_bytes(b) };
                    let _ = (n, w);
                    let got = <$P>::from_i64(raw).map(|v| <$N>::from(v).to_le_bytes().to_vec());
                    if got != e { bad("from_i64", format!("from_i64({}) = {:?}, reference {:?}", raw, got, e)); }
                }
                if case["is_zero"].get("v").is_some() && p.is_zero() != case["is_zero"]["v"].as_bool().unwrap() { bad("is_zero", format!("{:?}.is_zero() = {}", x, p.is_zero())); }
                int_case!(@neg $P, $N, $signed, case, x, p, bad);
            }
            "binary" => {
                let (x, y) = (nat(&case["a"]), nat(&case["b"]));
                let (p, q) = (<$P>::from(x), <$P>::from(y));
                let c = match p.cmp(&q) { std::cmp::Ordering::Less => -1, std::cmp::Ordering::Equal => 0, _ => 1 };
                let pc = match p.partial_cmp(&q) { Some(std::cmp::Ordering::Less) => -1, Some(std::cmp::Ordering::Equal) => 0, Some(_) => 1, None => 9 };
                let e = case["cmp"]["v"].as_i64().unwrap_or(9);
                if c != e || pc != e { bad("cmp", format!("{:?} cmp {:?} = {} / partial {} reference {}", x, y, c, pc, e)); }
                if (p == q) != case["eq"].as_bool().unwrap() || (p == q) != (p.to_bytes() == q.to_bytes()) { bad("eq", format!("{:?} == {:?} is {}", x, y, p == q)); }
                for (op, key) in [("add", "add"), ("sub", "sub"), ("mul", ""), ("div", ""), ("rem", "")] {
                    let natr = guarded(|| match op { "add" => x + y, "sub" => x - y, "mul" => x * y, "div" => x / y, _ => x % y });
                    let porr = guarded(|| <$N>::from(match op { "add" => p + q, "sub" => p - q, "mul" => p * q, "div" => p / q, _ => p % q }));
                    let asgr = guarded(|| { let mut r = p; match op { "add" => r += q, "sub" => r -= q, "mul" => r *= q, "div" => r /= q, _ => r %= q }; <$N>::from(r) });
                    match (&natr, &porr, &asgr) {
                        (Obs::Panic(_), Obs::Panic(_), Obs::Panic(_)) => {}
                        (Obs::Ret(a), Obs::Ret(b), Obs::Ret(c2)) if a == b && a == c2 => {
                            if !key.is_empty() {
                                let ev = bytes_of(&case[key]["v"]);
                                if a.to_le_bytes().to_vec() != ev { bad(op, format!("{:?} {} {:?} = {:?}, digit arithmetic of the specification gives {:?}", x, op, y, a, ev)); }
                            }
                        }
                        _ => bad(op, format!("{:?} {} {:?}: native {:?}, portable {:?}, assign form {:?}", x, op, y, natr, porr, asgr)),
                    }
                    if !key.is_empty() {
                        // the overflow flag of the specification agrees with the native operation (with overflow checks on it panics)
                        let ovf = case[key]["ovf"].as_bool().unwrap_or(false);
                        let wrapped = match op { "add" => x.checked_add(y).is_none(), _ => x.checked_sub(y).is_none() };
                        if ovf != wrapped { bad(op, format!("{:?} {} {:?}: overflow {} in the specification, {} natively", x, op, y, ovf, wrapped)); }
                    }
                }
            }
            "consts" => {
                let chk = |k: &str, v: $P| -> Option<String> { let e = bytes_of(&case[k]["v"]); if <$N>::from(v).to_le_bytes().to_vec() != e { Some(format!("{} = {:?}, reference {:?}", k, <$N>::from(v), e)) } else { None } };
                for d in [chk("zero", <$P>::zero()), chk("one", <$P>::one()), chk("min", <$P>::min_value()), chk("max", <$P>::max_value())].into_iter().flatten() { bad("const", d); }
                if <$N>::from(<$P>::default()) != 0 { bad("const", "default is not zero".into()); }
            }
            _ => {}
        }
    }};
}

macro_rules! float_case {
    ($P:ty, $N:ty, $B:ty, $case:expr, $out:expr, $name:expr) => {{
        let case: &Value = $case;
        let out: &mut Out = $out;
        let name: &str = $name;
        let mut bad = |chk: &str, d: String| out.viol("C16", chk, name, "", d);
        let nat = |v: &Value| -> $N { <$N>::from_bits(<$B>::from_le_bytes(bytes_of(v).as_slice().try_into().expect("width"))) };
        let same = |a: $N, b: $N| a.to_bits() == b.to_bits() || (a.is_nan() && b.is_nan());
        match case["stage"].as_str().unwrap_or("") {
            "unary" => {
                let x = nat(&case["a"]);
                let p = <$P>::from(x);
                if align_of::<$P>() != 1 || <$P as FlatBase>::ALIGN != 1 { bad("align", format!("align {}", align_of::<$P>())); }
                if size_of::<$P>() != size_of::<$N>() { bad("size", format!("size {}", size_of::<$P>())); }
                let stored = bytes_of(&case["stored"]);
                if p.to_bytes().to_vec() != stored || p.as_bytes() != &stored[..] { bad("stored", format!("{:?} stored as {:?}, reference {:?}", x, p.to_bytes(), stored)); }
                if <$N>::from(p).to_bits() != x.to_bits() { bad("roundtrip", format!("bits {:x} -> portable -> {:x}", x.to_bits(), <$N>::from(p).to_bits())); }
                let q = <$P>::from_bytes(stored.as_slice().try_into().unwrap());
                if <$N>::from(q).to_bits() != x.to_bits() || q != p { bad("load", format!("bytes {:?} load as bits {:x}", stored, <$N>::from(q).to_bits())); }
                if p.to_u64() != x.to_u64() || p.to_i64() != x.to_i64() { bad("to_int", format!("{:?}: to_u64 {:?}/{:?} to_i64 {:?}/{:?}", x, p.to_u64(), x.to_u64(), p.to_i64(), x.to_i64())); }
                if p.is_zero() != x.is_zero() { bad("is_zero", format!("{:?}", x)); }
                let natn = -x;
                if !same(<$N>::from(-p), natn) { bad("neg", format!("-{:?}", x)); }
            }
            "binary" => {
                let (x, y) = (nat(&case["a"]), nat(&case["b"]));
                let (p, q) = (<$P>::from(x), <$P>::from(y));
                if p.partial_cmp(&q) != x.partial_cmp(&y) { bad("cmp", format!("{:?} partial_cmp {:?} = {:?}, native {:?}", x, y, p.partial_cmp(&q), x.partial_cmp(&y))); }
                if (p == q) != (p.to_bytes() == q.to_bytes()) || (p == q) != case["eq"].as_bool().unwrap() { bad("eq", format!("{:?} == {:?} is {}", x, y, p == q)); }
                let ops: [(&str, $N, $N, $N); 5] = [
                    ("add", x + y, <$N>::from(p + q), { let mut r = p; r += q; <$N>::from(r) }),
                    ("sub", x - y, <$N>::from(p - q), { let mut r = p; r -= q; <$N>::from(r) }),
                    ("mul", x * y, <$N>::from(p * q), { let mut r = p; r *= q; <$N>::from(r) }),
                    ("div", x / y, <$N>::from(p / q), { let mut r = p; r /= q; <$N>::from(r) }),
                    ("rem", x % y, <$N>::from(p % q), { let mut r = p; r %= q; <$N>::from(r) }),
                ];
                for (op, a, b, c) in ops {
                    if !same(a, b) || !same(a, c) { bad(op, format!("{:?} {} {:?}: native {:?} portable {:?} assign {:?}", x, op, y, a, b, c)); }
                }
            }
            "consts" => {
                if <$N>::from(<$P>::zero()).to_bits() != <$N>::zero().to_bits() || <$N>::from(<$P>::one()) != 1.0 || <$N>::from(<$P>::min_value()) != <$N>::MIN || <$N>::from(<$P>::max_value()) != <$N>::MAX || <$N>::from(<$P>::default()).to_bits() != 0 {
                    bad("const", "zero/one/min/max/default differ from the native constants".into());
                }
                if <$P>::from_u64(3).map(<$N>::from) != <$N>::from_u64(3) || <$P>::from_i64(-3).map(<$N>::from) != <$N>::from_i64(-3) { bad("from_int", "from_u64 / from_i64".into()); }
            }
            _ => {}
        }
    }};
}

pub fn run_case(case: &Value, out: &mut Out) {
    let ty = case["ty"].as_str().unwrap_or("");
    let stage = case["stage"].as_str().unwrap_or("");
    out.count(&format!("pscalar.{}.{}", stage, if case["float"] == serde_json::json!(true) { "float" } else if ty == "Bool" { "bool" } else { "int" }));
    out.count("judged.C16");
    out.sample(&format!("pscalar.{}.{}", stage, ty), case);
    match ty {
        "le::U16" => int_case!(le::U16, u16, false, case, out, ty),
        "le::U32" => int_case!(le::U32, u32, false, case, out, ty),
        "le::U64" => int_case!(le::U64, u64, false, case, out, ty),
        "le::I16" => int_case!(le::I16, i16, true, case, out, ty),
        "le::I32" => int_case!(le::I32, i32, true, case, out, ty),
        "le::I64" => int_case!(le::I64, i64, true, case, out, ty),
        "be::U16" => int_case!(be::U16, u16, false, case, out, ty),
        "be::U32" => int_case!(be::U32, u32, false, case, out, ty),
        "be::U64" => int_case!(be::U64, u64, false, case, out, ty),
        "be::I16" => int_case!(be::I16, i16, true, case, out, ty),
        "be::I32" => int_case!(be::I32, i32, true, case, out, ty),
        "be::I64" => int_case!(be::I64, i64, true, case, out, ty),
        "le::F32" => float_case!(le::F32, f32, u32, case, out, ty),
        "le::F64" => float_case!(le::F64, f64, u64, case, out, ty),
        "be::F32" => float_case!(be::F32, f32, u32, case, out, ty),
        "be::F64" => float_case!(be::F64, f64, u64, case, out, ty),
        "Bool" => {
            let b = case["byte"].as_u64().unwrap_or(0) as u8;
            let valid = case["valid"].as_bool().unwrap_or(false);
            let r = Bool::validate(&[b]);
            if r.is_ok() != valid {
                out.viol("C16", "bool-validate", "Bool", "", format!("byte {} validate {:?}, reference valid={}", b, r, valid));
            }
            if align_of::<Bool>() != 1 || size_of::<Bool>() != 1 {
                out.viol("C16", "align", "Bool", "", "Bool is not one byte with alignment 1".into());
            }
            if b <= 1 {
                let x = Bool::from(b == 1);
                if x.as_bytes() != [b] || bool::from(x) != (b == 1) {
                    out.viol("C16", "bool-store", "Bool", "", format!("Bool::from({}) stored as {:?}", b == 1, x.as_bytes()));
                }
                for c in [false, true] {
                    let y = Bool::from(c);
                    let a = b == 1;
                    let mut t = [x; 3];
                    t[0] &= y;
                    t[1] |= y;
                    t[2] ^= y;
                    if bool::from(x & y) != (a & c) || bool::from(x | y) != (a | c) || bool::from(x ^ y) != (a ^ c) || bool::from(!x) != !a
                        || bool::from(t[0]) != (a & c) || bool::from(t[1]) != (a | c) || bool::from(t[2]) != (a ^ c) {
                        out.viol("C16", "bool-logic", "Bool", "", format!("logic operators on {} and {}", a, c));
                    }
                }
                if Bool::default() != Bool::False {
                    out.viol("C16", "bool-default", "Bool", "", "default is not False".into());
                }
            }
        }
        _ => out.count("unknown-type.pscalar"),
    }
}

// ---- seeded driver for trace validation (spec/TracePortable.tla) ------------------------------------
macro_rules! int_event {
    (@neg $P:ty, $N:ty, true, $p:expr, $arith:expr) => { $arith(guarded(|| <$N>::from(-$p))) };
    (@neg $P:ty, $N:ty, false, $p:expr, $arith:expr) => { serde_json::json!({"v": [], "panicked": false}) };
    ($P:ty, $N:ty, $name:expr, $be:expr, $signed:tt, $rng:expr) => {{
        let rng: &mut crate::drive::Rng = $rng;
        let w = size_of::<$N>();
        let draw = |rng: &mut crate::drive::Rng| -> $N {
            let mut b = [0u8; 8];
            match rng.below(6) {
                0 => { let k = rng.below(w); b[k] = rng.byte(); }                       // small / single byte set
                1 => { for x in b.iter_mut().take(w) { *x = 0xFF; } let k = rng.below(w); b[k] = rng.byte(); }
                _ => { for x in b.iter_mut().take(w) { *x = (rng.next() & 0xFF) as u8; } }
            }
            <$N>::from_le_bytes(b[..w].try_into().unwrap())
        };
        let (x, y) = (draw(rng), draw(rng));
        let (p, q) = (<$P>::from(x), <$P>::from(y));
        let d = |v: $N| v.to_le_bytes().to_vec();
        let arith = |r: Obs<$N>| match r { Obs::Ret(v) => serde_json::json!({"v": d(v), "panicked": false}), Obs::Panic(_) => serde_json::json!({"v": [], "panicked": true}) };
        let opt8u = |o: Option<u64>| match o { Some(v) => serde_json::json!({"some": true, "v": v.to_le_bytes().to_vec()}), None => serde_json::json!({"some": false, "v": []}) };
        let opt8i = |o: Option<i64>| match o { Some(v) => serde_json::json!({"some": true, "v": v.to_le_bytes().to_vec()}), None => serde_json::json!({"some": false, "v": []}) };
        let optp = |o: Option<$P>| match o { Some(v) => serde_json::json!({"some": true, "v": d(<$N>::from(v))}), None => serde_json::json!({"some": false, "v": []}) };
        let zext = { let mut b = [0u8; 8]; b[..w].copy_from_slice(&x.to_le_bytes()); u64::from_le_bytes(b) };
        let sext = { let mut b = [if x.to_le_bytes()[w - 1] >= 128 { 0xFFu8 } else { 0 }; 8]; b[..w].copy_from_slice(&x.to_le_bytes()); i64::from_le_bytes(b) };
        let c = match p.cmp(&q) { std::cmp::Ordering::Less => -1, std::cmp::Ordering::Equal => 0, _ => 1 };
        serde_json::json!({
            "ty": $name, "w": w, "be": $be, "sg": $signed, "a": d(x), "b": d(y),
            "stored": p.to_bytes().to_vec(), "cmp": c, "eq": p == q,
            "add": arith(guarded(|| <$N>::from(p + q))), "sub": arith(guarded(|| <$N>::from(p - q))),
            "neg": int_event!(@neg $P, $N, $signed, p, arith),
            "to_u64": opt8u(p.to_u64()), "to_i64": opt8i(p.to_i64()),
            "from_u64": optp(<$P>::from_u64(zext)), "from_i64": optp(<$P>::from_i64(sext)),
        })
    }};
}

pub fn drive_pscalar(rng: &mut crate::drive::Rng) -> Value {
    match rng.below(12) {
        0 => int_event!(le::U16, u16, "le::U16", false, false, rng),
        1 => int_event!(le::U32, u32, "le::U32", false, false, rng),
        2 => int_event!(le::U64, u64, "le::U64", false, false, rng),
        3 => int_event!(le::I16, i16, "le::I16", false, true, rng),
        4 => int_event!(le::I32, i32, "le::I32", false, true, rng),
        5 => int_event!(le::I64, i64, "le::I64", false, true, rng),
        6 => int_event!(be::U16, u16, "be::U16", true, false, rng),
        7 => int_event!(be::U32, u32, "be::U32", true, false, rng),
        8 => int_event!(be::U64, u64, "be::U64", true, false, rng),
        9 => int_event!(be::I16, i16, "be::I16", true, true, rng),
        10 => int_event!(be::I32, i32, "be::I32", true, true, rng),
        _ => int_event!(be::I64, i64, "be::I64", true, true, rng),
    }
}
