//! Scripted pipes and replay of the IO models' paths against flatty-io (blocking and async).
//!
//! A script is an *environment*: the outcome of every pipe call, in order.  It never presupposes the
//! implementation's buffering policy: `Data(n)` means "up to n bytes" (bounded by what the caller
//! offers and by what is left).  When the script runs out the pipe answers with a distinguished error
//! and the harness stops; a call budget turns a livelock into an observed outcome.
use crate::catalog::Visitor;
use crate::replay::{guarded, tree_diff, Engine, Obs, Out};
use crate::shape::*;
use flatty_io::{verif, Receiver, RecvError, Sender};
use serde_json::{json, Value};
use std::collections::VecDeque;
use std::io;

#[derive(Clone, Debug, PartialEq)]
pub enum POut {
    Data(usize),
    Zero,
    Err(io::ErrorKind),
    Eof,
    /// from now on every call fails this way
    StuckErr(io::ErrorKind),
    StuckZero,
}

pub fn err_kind(name: &str) -> io::ErrorKind {
    match name {
        "Interrupted" => io::ErrorKind::Interrupted,
        "WouldBlock" => io::ErrorKind::WouldBlock,
        "ConnectionReset" => io::ErrorKind::ConnectionReset,
        "TimedOut" => io::ErrorKind::TimedOut,
        "BrokenPipe" => io::ErrorKind::BrokenPipe,
        "UnexpectedEof" => io::ErrorKind::UnexpectedEof,
        _ => io::ErrorKind::Other,
    }
}

pub const EXHAUSTED: &str = "verif: script exhausted";
pub const BUDGET: &str = "verif: call budget exceeded";

pub struct ScriptSource {
    pub stream: Vec<u8>,
    pub rd: usize,
    pub script: VecDeque<POut>,
    pub calls: usize,
    pub budget: usize,
    pub exhausted: bool,
    pub over_budget: bool,
    pub log: Vec<Value>,
}

impl ScriptSource {
    pub fn new(stream: Vec<u8>, script: Vec<POut>, budget: usize) -> Self {
        ScriptSource { stream, rd: 0, script: script.into(), calls: 0, budget, exhausted: false, over_budget: false, log: vec![] }
    }
}

impl ScriptSource {
    /// hook events recorded since the last pipe call come first (program order, single thread)
    fn drain_hooks(&mut self) {
        for h in verif_events_json(verif::take()) {
            self.log.push(json!({"t": "hook", "e": h}));
        }
    }
}

impl io::Read for ScriptSource {
    fn read(&mut self, buf: &mut [u8]) -> io::Result<usize> {
        self.drain_hooks();
        self.calls += 1;
        if self.calls > self.budget {
            // an error would be one more outcome the code under test may swallow: unwind instead
            panic!("{}", BUDGET);
        }
        match self.script.pop_front() {
            Some(POut::Data(n)) => {
                let k = n.min(buf.len()).min(self.stream.len() - self.rd);
                buf[..k].copy_from_slice(&self.stream[self.rd..self.rd + k]);
                self.log.push(json!({"t": "pipe", "e": {"ev": "read", "offered": buf.len(), "n": k, "pos": self.rd, "data": self.stream[self.rd..self.rd + k].to_vec()}}));
                self.rd += k;
                if k < n && k == buf.len() && k > 0 {
                    // the code offered less room than the plan assumed (a different, equally legitimate window
                    // position): the source still holds the rest of this chunk and hands it out on the next call
                    self.script.push_front(POut::Data(n - k));
                }
                Ok(k)
            }
            Some(POut::Eof) | Some(POut::Zero) => {
                self.log.push(json!({"t": "pipe", "e": {"ev": "read", "offered": buf.len(), "n": 0, "pos": self.rd, "data": []}}));
                Ok(0)
            }
            Some(POut::Err(k)) | Some(POut::StuckErr(k)) => {
                self.log.push(json!({"t": "pipe", "e": {"ev": "readerr", "offered": buf.len(), "pos": self.rd}}));
                Err(io::Error::new(k, "verif: injected read error"))
            }
            Some(POut::StuckZero) => Ok(0),
            None => {
                self.exhausted = true;
                Err(io::Error::new(io::ErrorKind::Other, EXHAUSTED))
            }
        }
    }
}

#[derive(Default)]
pub struct SinkState {
    pub sink: Vec<u8>,
    pub calls: usize,
    pub flushes: usize,
    pub exhausted: bool,
    /// program-order record of the run: hook events, pipe calls, emplaced messages, returns (for TLC trace validation)
    pub log: Vec<Value>,
}

fn drain_hooks_into(log: &mut Vec<Value>) {
    for h in verif_events_json(verif::take()) {
        log.push(json!({"t": "hook", "e": h}));
    }
}

pub struct ScriptSink {
    pub st: std::rc::Rc<std::cell::RefCell<SinkState>>,
    pub script: VecDeque<POut>,
    pub stuck: Option<POut>,
    pub budget: usize,
}

impl ScriptSink {
    pub fn new(script: Vec<POut>, budget: usize) -> Self {
        ScriptSink { st: Default::default(), script: script.into(), stuck: None, budget }
    }
}

impl io::Write for ScriptSink {
    fn write(&mut self, buf: &[u8]) -> io::Result<usize> {
        let mut st = self.st.borrow_mut();
        st.calls += 1;
        if st.calls > self.budget {
            // an error would be one more outcome the code under test may swallow: unwind instead
            drop(st);
            panic!("{}", BUDGET);
        }
        let o = match &self.stuck {
            Some(s) => Some(s.clone()),
            None => self.script.pop_front(),
        };
        drain_hooks_into(&mut st.log);
        match o {
            Some(POut::Data(n)) => {
                let k = n.min(buf.len());
                st.sink.extend_from_slice(&buf[..k]);
                st.log.push(json!({"t": "pipe", "e": {"ev": "write", "offered": buf.to_vec(), "n": k}}));
                Ok(k)
            }
            Some(POut::Zero) | Some(POut::Eof) => {
                st.log.push(json!({"t": "pipe", "e": {"ev": "writezero", "offered": buf.to_vec(), "n": 0}}));
                Ok(0)
            }
            Some(POut::Err(k)) => {
                st.log.push(json!({"t": "pipe", "e": {"ev": "writeerr", "offered": buf.to_vec(), "n": 0}}));
                Err(io::Error::new(k, "verif: injected write error"))
            }
            Some(POut::StuckErr(k)) => {
                self.stuck = Some(POut::StuckErr(k));
                st.log.push(json!({"t": "pipe", "e": {"ev": "writeerr", "offered": buf.to_vec(), "n": 0}}));
                Err(io::Error::new(k, "verif: injected write error (persistent)"))
            }
            Some(POut::StuckZero) => {
                self.stuck = Some(POut::StuckZero);
                st.log.push(json!({"t": "pipe", "e": {"ev": "writezero", "offered": buf.to_vec(), "n": 0}}));
                Ok(0)
            }
            None => {
                // the environment has nothing more to say: stop the run here
                st.exhausted = true;
                st.calls -= 1;
                drop(st);
                panic!("{}", EXHAUSTED);
            }
        }
    }
    fn flush(&mut self) -> io::Result<()> {
        let mut st = self.st.borrow_mut();
        st.flushes += 1;
        drain_hooks_into(&mut st.log);
        st.log.push(json!({"t": "pipe", "e": {"ev": "flush", "offered": [], "n": 0}}));
        Ok(())
    }
}

fn is_marker(e: &io::Error, m: &str) -> bool {
    e.to_string().contains(m)
}

pub fn verif_events_json(evs: Vec<verif::Event>) -> Vec<Value> {
    evs.into_iter()
        .map(|e| match e {
            verif::Event::Advance { count, start, end } => json!({"ev": "advance", "n": count, "ws": start, "we": end}),
            verif::Event::Skip { count, start, end } => json!({"ev": "skip", "n": count, "ws": start, "we": end}),
            verif::Event::MakeContiguous { start, end } => json!({"ev": "compact", "ws": start, "we": end}),
            verif::Event::Clear => json!({"ev": "clear"}),
            verif::Event::Poison => json!({"ev": "poison"}),
        })
        .collect()
}

// ---------------------------------------------------------------------------------------------
// blocking receiver
// ---------------------------------------------------------------------------------------------
pub struct IoRecvVisitor<'a> {
    pub eng: &'a Engine,
    pub case: &'a Value,
    pub header: &'a Value,
    pub out: &'a mut Out,
}

/// What one run of the real receiver over a scripted source looked like.
pub struct RecvRun {
    pub rets: Vec<Value>,
    pub trace: Vec<Value>,
    pub over_budget: bool,
    pub max_calls_per_recv: usize,
    pub cap: usize,
}

/// The same scripted source seen through the async traits (it never answers Pending: the async
/// receiver / sender then run exactly the blocking algorithm's steps).
pub struct NeverPending<P>(pub P);
impl<P: io::Read + Unpin> futures::io::AsyncRead for NeverPending<P> {
    fn poll_read(mut self: std::pin::Pin<&mut Self>, _cx: &mut std::task::Context<'_>, buf: &mut [u8]) -> std::task::Poll<io::Result<usize>> {
        std::task::Poll::Ready(self.0.read(buf))
    }
}
impl<P: io::Write + Unpin> futures::io::AsyncWrite for NeverPending<P> {
    fn poll_write(mut self: std::pin::Pin<&mut Self>, _cx: &mut std::task::Context<'_>, buf: &[u8]) -> std::task::Poll<io::Result<usize>> {
        std::task::Poll::Ready(self.0.write(buf))
    }
    fn poll_flush(mut self: std::pin::Pin<&mut Self>, _cx: &mut std::task::Context<'_>) -> std::task::Poll<io::Result<()>> {
        std::task::Poll::Ready(self.0.flush())
    }
    fn poll_close(self: std::pin::Pin<&mut Self>, _cx: &mut std::task::Context<'_>) -> std::task::Poll<io::Result<()>> {
        std::task::Poll::Ready(Ok(()))
    }
}

/// Like NeverPending, but every pipe call answers Pending once before it is carried out (the task is
/// simply polled again): partial progress has to survive across polls.
pub struct PendingFirst<P> {
    pub inner: P,
    /// false: never Pending (behaves like NeverPending)
    pub on: bool,
    armed: bool,
}
impl<P> PendingFirst<P> {
    pub fn new(inner: P, on: bool) -> Self {
        PendingFirst { inner, on, armed: false }
    }
    fn gate(&mut self) -> bool {
        if !self.on {
            return false;
        }
        self.armed = !self.armed;
        self.armed
    }
}
impl<P: io::Read + Unpin> futures::io::AsyncRead for PendingFirst<P> {
    fn poll_read(mut self: std::pin::Pin<&mut Self>, _cx: &mut std::task::Context<'_>, buf: &mut [u8]) -> std::task::Poll<io::Result<usize>> {
        if self.gate() { return std::task::Poll::Pending; }
        std::task::Poll::Ready(self.inner.read(buf))
    }
}
impl<P: io::Write + Unpin> futures::io::AsyncWrite for PendingFirst<P> {
    fn poll_write(mut self: std::pin::Pin<&mut Self>, _cx: &mut std::task::Context<'_>, buf: &[u8]) -> std::task::Poll<io::Result<usize>> {
        if self.gate() { return std::task::Poll::Pending; }
        std::task::Poll::Ready(self.inner.write(buf))
    }
    fn poll_flush(mut self: std::pin::Pin<&mut Self>, _cx: &mut std::task::Context<'_>) -> std::task::Poll<io::Result<()>> {
        if self.gate() { return std::task::Poll::Pending; }
        std::task::Poll::Ready(self.inner.flush())
    }
    fn poll_close(self: std::pin::Pin<&mut Self>, _cx: &mut std::task::Context<'_>) -> std::task::Poll<io::Result<()>> {
        std::task::Poll::Ready(Ok(()))
    }
}

/// Poll a future by hand (no-op waker) until it is ready; `None` if it is still pending after `max` polls.
pub fn poll_to_end<F: std::future::Future>(f: F, max: usize) -> Option<F::Output> {
    let waker = futures::task::noop_waker();
    let mut cx = std::task::Context::from_waker(&waker);
    let mut f = Box::pin(f);
    for _ in 0..max {
        if let std::task::Poll::Ready(v) = f.as_mut().poll(&mut cx) {
            return Some(v);
        }
    }
    None
}

/// The async receiver over the same script; returns only the sequence of returns (no trace).
pub fn run_async_receiver<T: Shape + ?Sized>(stream: &[u8], script: Vec<POut>, maxlen: usize, cap: usize, budget: usize, pending: bool, retain: &[usize]) -> Obs<Vec<Value>> {
    guarded(|| {
        let _ = verif::take();
        let src = PendingFirst::new(ScriptSource::new(stream.to_vec(), script, budget), pending);
        let default_cap = 2 * maxlen.max(T::MIN_SIZE);
        let mut rx = if cap == default_cap { flatty_io::AsyncReceiver::<T, _>::io(src, maxlen) } else { flatty_io::AsyncReceiver::<T, _>::new(flatty_io::IoBuffer::new(src, cap, T::ALIGN)) };
        let mut rets = vec![];
        let done = poll_to_end(async {
            loop {
                let (ret, stop) = match rx.recv().await {
                    Ok(g) => {
                        let mut c = Ctx::unbounded();
                        let val = g.read(&mut c);
                        let r = json!({"e": "msg", "v": val, "size": g.size(), "lencap": c.lencap});
                        if retain.contains(&rets.len()) {
                            g.retain();
                        }
                        (r, false)
                    }
                    Err(RecvError::Closed) => (json!({"e": "closed"}), true),
                    Err(RecvError::Parse(e)) => (json!({"e": "parse", "err": err_json(&e)}), true),
                    Err(RecvError::Read(e)) => {
                        if is_marker(&e, EXHAUSTED) { (json!({"e": "exhausted"}), true) }
                        else if e.kind() == io::ErrorKind::OutOfMemory { (json!({"e": "oom"}), true) }
                        else { (json!({"e": "rerr"}), false) }
                    }
                };
                if ret["e"] != "exhausted" {
                    rets.push(ret);
                }
                if stop {
                    break;
                }
            }
        }, 8 * budget + 64);
        if done.is_none() {
            panic!("{}", BUDGET);
        }
        let _ = verif::take();
        rets
    })
}

pub fn run_blocking_receiver<T: Shape + ?Sized>(stream: &[u8], script: Vec<POut>, maxlen: usize, cap: usize, budget: usize, retain: &[usize]) -> Obs<RecvRun> {
    guarded(|| {
        let _ = verif::take();
        let src = ScriptSource::new(stream.to_vec(), script, budget);
        let default_cap = 2 * maxlen.max(T::MIN_SIZE);
        let mut rx = if cap == default_cap { Receiver::<T, _>::io(src, maxlen) } else { Receiver::<T, _>::new(flatty_io::IoBuffer::new(src, cap, T::ALIGN)) };
        let cap = rx.verif_buffer().verif_state().2;
        let mut rets = vec![];
        let mut trace: Vec<Value> = vec![];
        let mut max_calls = 0usize;
        loop {
            let c0 = rx.verif_buffer().verif_pipe().calls;
            let mut before: Vec<Value> = vec![];
            let (ret, stop) = match rx.recv() {
                Ok(g) => {
                    // hook events up to the return of recv (the guard is still alive)
                    before = verif_events_json(verif::take()).into_iter().map(|h| json!({"t": "hook", "e": h})).collect();
                    let mut c = Ctx::unbounded();
                    let val = g.read(&mut c);
                    let size = g.size();
                    if retain.contains(&rets.len()) {
                        g.retain();
                    }
                    (json!({"e": "msg", "v": val, "size": size, "lencap": c.lencap}), false)
                    // the guard is dropped here: skip(size())
                }
                Err(RecvError::Closed) => (json!({"e": "closed"}), true),
                Err(RecvError::Parse(e)) => (json!({"e": "parse", "err": err_json(&e)}), true),
                Err(RecvError::Read(e)) => {
                    if is_marker(&e, EXHAUSTED) {
                        (json!({"e": "exhausted"}), true)
                    } else if is_marker(&e, BUDGET) {
                        (json!({"e": "budget"}), true)
                    } else if e.kind() == io::ErrorKind::OutOfMemory {
                        (json!({"e": "oom"}), true)
                    } else {
                        (json!({"e": "rerr"}), false)
                    }
                }
            };
            // program order (single thread): pipe calls with the hook events before each of them, the hook
            // events up to the return, the return, then what dropping the guard did
            let mut evs: Vec<Value> = std::mem::take(&mut rx.verif_buffer_mut().verif_pipe_mut().log);
            evs.extend(before);
            let post: Vec<Value> = verif_events_json(verif::take()).into_iter().map(|h| json!({"t": "hook", "e": h})).collect();
            let (evs, post) = if ret["e"] == "msg" { (evs, post) } else { let mut e2 = evs; e2.extend(post); (e2, vec![]) };
            trace.push(json!({"evs": evs, "ret": ret, "post": post}));
            let c1 = rx.verif_buffer().verif_pipe().calls;
            max_calls = max_calls.max(c1 - c0);
            let is_ex = ret["e"] == "exhausted";
            if !is_ex {
                rets.push(ret);
            }
            if stop {
                break;
            }
        }
        let ob = rx.verif_buffer().verif_pipe().over_budget;
        RecvRun { rets, trace, over_budget: ob, max_calls_per_recv: max_calls, cap }
    })
}

fn script_from_recv_path(path: &[Value]) -> (Vec<POut>, Vec<Value>, Vec<usize>) {
    let mut script = vec![];
    let mut rets: Vec<Value> = vec![];
    let mut retain = vec![];
    for ev in path {
        match ev["e"].as_str().unwrap_or("") {
            // the guard of the message just returned is retained (forgotten), not dropped
            "retain" => retain.push(rets.len() - 1),
            "read" => script.push(POut::Data(ev["n"].as_u64().unwrap_or(0) as usize)),
            "rerr" => {
                script.push(POut::Err(err_kind(ev["kind"].as_str().unwrap_or(""))));
                rets.push(json!({"e": "rerr"}));
            }
            "closed" | "eof" => {
                script.push(POut::Eof);
                rets.push(json!({"e": "closed"}));
            }
            "msg" => rets.push(json!({"e": "msg", "size": ev["n"]})),
            "parse" => rets.push(json!({"e": "parse"})),
            "oom" => rets.push(json!({"e": "oom"})),
            _ => {}
        }
    }
    (script, rets, retain)
}

impl<'a> Visitor for IoRecvVisitor<'a> {
    type Out = ();
    fn visit<T: Shape + ?Sized>(self) {
        let IoRecvVisitor { eng, case, header, out } = self;
        let id = header["id"].as_str().unwrap_or("?");
        let props = crate::replay::props_of(case, &eng.default_props);
        let has = |p: &str| props.iter().any(|x| x == p);
        let stream = bytes_of(&header["bytes"]);
        let maxlen = header["maxlen"].as_u64().unwrap_or(0) as usize;
        let cap = header["cap"].as_u64().unwrap_or(0) as usize;
        let valid = header["nmsg"].as_i64().unwrap_or(-1) >= 0;
        let path = arr(&case["path"]);
        let (script, exp_rets, retain) = script_from_recv_path(path);
        let nfaults = path.iter().filter(|e| e["e"] == "rerr" || e["e"] == "eof").count();
        let class = format!("iorecv.{}.{}{}", if valid { "valid" } else { "arbitrary" }, case["final"].as_str().unwrap_or(""), if nfaults > 0 { ".faults" } else if !retain.is_empty() { ".retain" } else { "" });
        out.count(&class);
        out.sample(&class, &json!({"header": header, "path": case["path"], "final": case["final"]}));
        let owner = |valid: bool, faults: usize| -> &'static str {
            if !valid { "C10" } else if faults > 0 { "C09" } else { "C07" }
        };
        let p = owner(valid, nfaults);
        let budget = 4 * (cap + 2) * (exp_rets.len() + 2);
        if has("C08") && valid && nfaults == 0 {
            // C08: the async receiver over a pipe that is always ready, under every chunking and buffer capacity
            out.count("judged.C08");
            out.count("ioasync.recv-paths");
            match run_async_receiver::<T>(&stream, script.clone(), maxlen, cap, budget, false, &retain) {
                Obs::Panic(m) => out.viol("C08", "panic", id, "async-recv", format!("async recv / guard drop panicked: {}", m)),
                Obs::Ret(arets) => {
                    let msgs = arr(&header["msgs"]);
                    let mut mi = 0usize;
                    let mut bad = arets.len() < exp_rets.len();
                    for (i, got) in arets.iter().enumerate() {
                        match exp_rets.get(i) {
                            Some(e) => bad = bad || got["e"] != e["e"] || (got["e"] == "msg" && got["size"] != e["size"]),
                            None => bad = bad || got["e"] != "msg",
                        }
                        if got["e"] == "msg" {
                            bad = bad || msgs.get(mi).map(|m| content_diff(m, &got["v"], "").is_some()).unwrap_or(true);
                            if !retain.contains(&i) {
                                mi += 1;
                            }
                        }
                    }
                    if bad {
                        out.viol("C08", "returns", id, "async-recv", format!("async receiver returned {:?}, expected {:?} (then only further sent messages)", kinds(&arets), kinds(&exp_rets)));
                    }
                }
            }
        }
        if !has(p) {
            return;
        }
        out.count(&format!("judged.{}", p));
        let script2 = script.clone();
        let run = match run_blocking_receiver::<T>(&stream, script, maxlen, cap, budget, &retain) {
            Obs::Panic(m) => {
                if m.contains(BUDGET) {
                    out.viol(p, "no-return", id, "recv", "recv did not return within the pipe-call budget".into());
                } else {
                    out.viol(p, "panic", id, "recv", format!("recv / guard drop panicked: {}", m));
                }
                return;
            }
            Obs::Ret(r) => r,
        };
        if run.over_budget || run.max_calls_per_recv > 4 * (cap + 2) {
            out.viol(p, "no-return", id, "recv", format!("recv did not return within the call budget ({} pipe calls in one recv)", run.max_calls_per_recv));
            return;
        }
        // the sequence of returns: kinds, and for messages the content.  The path ends at a pipe call; what
        // the receiver still hands out from bytes it already holds (further messages, a parse error) follows
        // the expected returns and is judged by the paths that contain it explicitly.
        let msgs = arr(&header["msgs"]);
        let mut mi = 0usize;
        if run.rets.len() < exp_rets.len() {
            out.viol(p, "returns", id, "count", format!("returns {:?} expected {:?}", kinds(&run.rets), kinds(&exp_rets)));
            return;
        }
        for (i, got) in run.rets.iter().enumerate() {
            match exp_rets.get(i) {
                Some(exp) => {
                    if got["e"] != exp["e"] {
                        out.viol(p, "returns", id, &format!("{}-vs-{}", got["e"].as_str().unwrap_or(""), exp["e"].as_str().unwrap_or("")), format!("return {} is {} expected {}; all: {:?} expected {:?}", i, got, exp, kinds(&run.rets), kinds(&exp_rets)));
                        return;
                    }
                    if got["e"] == "msg" && got["size"] != exp["size"] {
                        out.viol(p, "message", id, "size", format!("message {} has size() {} expected {}", mi, got["size"], exp["size"]));
                    }
                }
                None => {
                    if !matches!(got["e"].as_str().unwrap_or(""), "msg" | "parse" | "oom") || (valid && got["e"] != "msg") {
                        out.viol(p, "returns", id, &format!("extra-{}", got["e"].as_str().unwrap_or("")), format!("unexpected return {} after the script ended; all: {:?} expected {:?}", got, kinds(&run.rets), kinds(&exp_rets)));
                        return;
                    }
                }
            }
            if got["e"] == "msg" {
                if valid {
                    match msgs.get(mi) {
                        Some(m) => {
                            if let Some(d) = content_diff(m, &got["v"], "") {
                                out.viol(p, "message", id, "content", format!("message {}: {}", mi, d));
                            }
                        }
                        None => out.viol(p, "message", id, "not-sent", format!("message {} was never sent: {}", mi, got["v"])),
                    }
                }
                if got["lencap"].as_array().map(|a| !a.is_empty()).unwrap_or(false) {
                    out.viol(p, "message", id, "len>cap", format!("message {}: {}", mi, got["lencap"]));
                }
                if !retain.contains(&i) {
                    mi += 1;
                }
            }
        }
        // the async receiver runs the same algorithm: over the same script -- through a pipe that never answers
        // Pending, and through one that answers Pending once before every call -- it must return exactly what the
        // blocking one returned
        for pending in [false, true] {
            let variant = if pending { "async-recv(pending-first)" } else { "async-recv" };
            match run_async_receiver::<T>(&stream, script2.clone(), maxlen, cap, budget, pending, &retain) {
                Obs::Panic(m) => {
                    if m.contains(BUDGET) {
                        out.viol(p, "no-return", id, variant, "async recv did not return within the poll / pipe-call budget".into());
                    } else {
                        out.viol(p, "panic", id, variant, format!("async recv / guard drop panicked: {}", m));
                    }
                }
                Obs::Ret(arets) => {
                    let strip = |v: &Vec<Value>| -> Vec<Value> { v.iter().map(|r| json!({"e": r["e"], "size": r["size"], "v": r["v"]})).collect() };
                    if strip(&arets) != strip(&run.rets) {
                        out.viol(p, "returns", id, &format!("{}-differs", variant), format!("async receiver returned {:?}, blocking receiver {:?} on the same script", kinds(&arets), kinds(&run.rets)));
                    }
                }
            }
        }
        // keep the recorded trace for TLC trace validation
        if let Some(sink) = &eng.trace_sink {
            let rec = json!({"kind": "iorecv", "id": id, "stream": stream, "cap": run.cap, "align": T::ALIGN, "events": run.trace});
            sink.borrow_mut().push(rec);
        }
    }
}

/// Compare a *content* of the specification (no capacities / regions: a FlatVec is the sequence of its
/// elements, a FlatString its bytes, a FlexVec the sequence of its items) with a deep read.
pub fn content_diff(c: &Value, got: &Value, path: &str) -> Option<String> {
    match (c, got) {
        (Value::Array(a), Value::Object(o)) => {
            let inner = if let Some(b) = o.get("bytes") { b.clone() } else { o.get("items").cloned().unwrap_or(Value::Null) };
            let items: Vec<Value> = inner.as_array().cloned().unwrap_or_default().into_iter().map(|x| if x.get("v").is_some() && x.get("at").is_some() { x["v"].clone() } else { x }).collect();
            if a.len() != items.len() {
                return Some(format!("{}: length spec {} impl {}", path, a.len(), items.len()));
            }
            a.iter().zip(items.iter()).enumerate().find_map(|(i, (x, y))| content_diff(x, y, &format!("{}[{}]", path, i)))
        }
        (Value::Array(a), Value::Array(b)) => {
            if a.len() != b.len() {
                return Some(format!("{}: length spec {} impl {}", path, a.len(), b.len()));
            }
            a.iter().zip(b.iter()).enumerate().find_map(|(i, (x, y))| content_diff(x, y, &format!("{}[{}]", path, i)))
        }
        (Value::Object(a), Value::Object(b)) => a.iter().find_map(|(k, x)| match b.get(k) {
            Some(y) => content_diff(x, y, &format!("{}.{}", path, k)),
            None => Some(format!("{}.{}: missing in impl", path, k)),
        }),
        _ => if c == got { None } else { Some(format!("{}: spec {} impl {}", path, c, got)) },
    }
}

fn kinds(v: &[Value]) -> Vec<String> {
    v.iter().map(|x| x["e"].as_str().unwrap_or("?").to_string()).collect()
}

// ---------------------------------------------------------------------------------------------
// blocking sender
// ---------------------------------------------------------------------------------------------
pub struct IoSendVisitor<'a> {
    pub eng: &'a Engine,
    pub case: &'a Value,
    pub header: &'a Value,
    pub out: &'a mut Out,
}

pub struct SendRun {
    pub rets: Vec<String>,
    pub real_msgs: Vec<Vec<u8>>,
    pub sink: Vec<u8>,
    pub over_budget: bool,
    pub calls_per_send: Vec<usize>,
    pub sink_after: Vec<usize>,
    pub poisoned: bool,
    pub trace: Vec<Value>,
}

pub fn run_blocking_sender<T: Shape + ?Sized>(msgs: &[Value], script: Vec<POut>, maxlen: usize, budget: usize) -> Obs<SendRun> {
    run_sender::<T>(msgs, script, maxlen, budget, 0, &[])
}

/// `asyncv`: use the async Sender over the same scripted sink (it never answers Pending).
/// `abandon`: indices of messages that are emplaced under a SendGuard which is then dropped without `send()`.
pub fn run_sender<T: Shape + ?Sized>(msgs: &[Value], script: Vec<POut>, maxlen: usize, budget: usize, mode: u8, abandon: &[usize]) -> Obs<SendRun> {
    let asyncv = mode > 0;
    let abandon = abandon.to_vec();
    let pipe = ScriptSink::new(script, budget);
    let st = pipe.st.clone();
    let empty = || SendRun { rets: vec![], real_msgs: vec![], sink: vec![], over_budget: false, calls_per_send: vec![], sink_after: vec![], poisoned: false, trace: vec![] };
    let shared = std::rc::Rc::new(std::cell::RefCell::new(empty()));
    let sh = shared.clone();
    let st2 = st.clone();
    let r = guarded(move || {
        let _ = verif::take();
        if !asyncv {
            let mut tx = Sender::<T, _>::io(pipe, maxlen);
            for (i, m) in msgs.iter().enumerate() {
                if tx.verif_buffer().verif_state().3 {
                    // a poisoned sender refuses (the documented assert); nothing may reach the sink any more
                    sh.borrow_mut().poisoned = true;
                    break;
                }
                let c0 = st2.borrow().calls;
                let g = tx.alloc().expect("alloc");
                let g = match g.new_in_place(T::emp(m, i as u32)) {
                    Ok(g) => g,
                    Err(e) => panic!("message {} does not fit the sender's buffer: {:?}", i, e),
                };
                let size = g.size();
                sh.borrow_mut().real_msgs.push(g.as_bytes()[..size.min(g.as_bytes().len())].to_vec());
                {
                    let mut stl = st2.borrow_mut();
                    drain_hooks_into(&mut stl.log);
                    stl.log.push(json!({"t": "emplaced", "e": {"ev": "emplaced", "offered": g.as_bytes()[..size.min(g.as_bytes().len())].to_vec(), "n": g.as_bytes().len()}}));
                }
                if abandon.contains(&i) {
                    drop(g);
                    let mut stl = st2.borrow_mut();
                    drain_hooks_into(&mut stl.log);
                    stl.log.push(json!({"t": "ret", "e": {"ev": "dropped", "offered": [], "n": 0}}));
                    drop(stl);
                    let c1 = st2.borrow().calls;
                    let mut run = sh.borrow_mut();
                    run.calls_per_send.push(c1 - c0);
                    run.sink_after.push(st2.borrow().sink.len());
                    run.rets.push("dropped".into());
                    run.poisoned = tx.verif_buffer().verif_state().3;
                    continue;
                }
                let r = g.send();
                {
                    let mut stl = st2.borrow_mut();
                    drain_hooks_into(&mut stl.log);
                    stl.log.push(json!({"t": "ret", "e": {"ev": if r.is_ok() { "ok" } else { "err" }, "offered": [], "n": 0}}));
                }
                let c1 = st2.borrow().calls;
                let mut run = sh.borrow_mut();
                run.calls_per_send.push(c1 - c0);
                run.sink_after.push(st2.borrow().sink.len());
                run.rets.push(if r.is_ok() { "ok".into() } else { "err".into() });
                run.poisoned = tx.verif_buffer().verif_state().3;
            }
            let p = tx.verif_buffer().verif_state().3;
            let was = sh.borrow().poisoned;
            sh.borrow_mut().poisoned = was || p;
        } else {
            let mut tx = flatty_io::AsyncSender::<T, _>::io(PendingFirst::new(pipe, mode == 2), maxlen);
            let done = poll_to_end(async {
                for (i, m) in msgs.iter().enumerate() {
                    if tx.verif_buffer().verif_state().3 {
                        sh.borrow_mut().poisoned = true;
                        break;
                    }
                    let c0 = st2.borrow().calls;
                    let g = tx.alloc().await.expect("alloc");
                    let g = match g.new_in_place(T::emp(m, i as u32)) {
                        Ok(g) => g,
                        Err(e) => panic!("message {} does not fit the sender's buffer: {:?}", i, e),
                    };
                    let size = g.size();
                    sh.borrow_mut().real_msgs.push(g.as_bytes()[..size.min(g.as_bytes().len())].to_vec());
                    {
                        let mut stl = st2.borrow_mut();
                        drain_hooks_into(&mut stl.log);
                        stl.log.push(json!({"t": "emplaced", "e": {"ev": "emplaced", "offered": g.as_bytes()[..size.min(g.as_bytes().len())].to_vec(), "n": g.as_bytes().len()}}));
                    }
                    if abandon.contains(&i) {
                        drop(g);
                        let mut stl = st2.borrow_mut();
                        drain_hooks_into(&mut stl.log);
                        stl.log.push(json!({"t": "ret", "e": {"ev": "dropped", "offered": [], "n": 0}}));
                        drop(stl);
                        let c1 = st2.borrow().calls;
                        let mut run = sh.borrow_mut();
                        run.calls_per_send.push(c1 - c0);
                        run.sink_after.push(st2.borrow().sink.len());
                        run.rets.push("dropped".into());
                        run.poisoned = tx.verif_buffer().verif_state().3;
                        continue;
                    }
                    let r = g.send().await;
                    {
                        let mut stl = st2.borrow_mut();
                        drain_hooks_into(&mut stl.log);
                        stl.log.push(json!({"t": "ret", "e": {"ev": if r.is_ok() { "ok" } else { "err" }, "offered": [], "n": 0}}));
                    }
                    let c1 = st2.borrow().calls;
                    let mut run = sh.borrow_mut();
                    run.calls_per_send.push(c1 - c0);
                    run.sink_after.push(st2.borrow().sink.len());
                    run.rets.push(if r.is_ok() { "ok".into() } else { "err".into() });
                    run.poisoned = tx.verif_buffer().verif_state().3;
                }
            }, 16 * budget + 64);
            if done.is_none() {
                panic!("{}", BUDGET);
            }
            let p = tx.verif_buffer().verif_state().3;
            let was = sh.borrow().poisoned;
            sh.borrow_mut().poisoned = was || p;
        }
    });
    let finish = |shared: std::rc::Rc<std::cell::RefCell<SendRun>>| {
        let mut run = std::mem::replace(&mut *shared.borrow_mut(), empty());
        run.sink = st.borrow().sink.clone();
        run.trace = std::mem::take(&mut st.borrow_mut().log);
        // a send that was cut short by the end of the script has no result
        while run.real_msgs.len() > run.rets.len() {
            run.rets.push("exhausted".into());
            run.sink_after.push(run.sink.len());
        }
        run
    };
    match r {
        Obs::Ret(()) => Obs::Ret(finish(shared)),
        Obs::Panic(m) if m.contains(EXHAUSTED) => Obs::Ret(finish(shared)),
        Obs::Panic(m) => Obs::Panic(m),
    }
}

fn script_from_send_path(path: &[Value]) -> (Vec<POut>, bool, bool, Vec<usize>) {
    let mut script = vec![];
    let mut abandon = vec![];
    let (mut faults, mut transient0) = (false, false);
    for ev in path {
        let n = ev["n"].as_u64().unwrap_or(0) as usize;
        match ev["e"].as_str().unwrap_or("") {
            "w" => script.push(POut::Data(n)),
            "abandon" => abandon.push((ev["m"].as_u64().unwrap_or(1) as usize).saturating_sub(1)),
            "zero" => {
                faults = true;
                if n == 1 { script.push(POut::StuckZero) } else if n == 0 { script.push(POut::Zero) }
            }
            "err" => {
                faults = true;
                if n == 0 && ev["pos"].as_u64() == Some(0) {
                    transient0 = true;
                }
                let k = err_kind(ev["kind"].as_str().unwrap_or(""));
                if n == 1 { script.push(POut::StuckErr(k)) } else if n == 0 { script.push(POut::Err(k)) }
            }
            _ => {}
        }
    }
    (script, faults, transient0, abandon)
}

/// SinkFramed on the real run: whole messages (of the sends that returned ok), at most one partial
/// message, nothing after a partial one.
pub fn sink_framed(run: &SendRun) -> Result<(), String> {
    let mut at = 0usize;
    let mut partial_seen = false;
    for (i, r) in run.rets.iter().enumerate() {
        let m = &run.real_msgs[i];
        let end = run.sink_after.get(i).copied().unwrap_or(run.sink.len());
        let added = &run.sink[at.min(run.sink.len())..end.min(run.sink.len())];
        if partial_seen && !added.is_empty() {
            return Err(format!("send {} added {} bytes after a partial message", i, added.len()));
        }
        if r == "dropped" {
            if !added.is_empty() {
                return Err(format!("message {} was abandoned (guard dropped without send) but {} bytes reached the sink", i, added.len()));
            }
        } else if r == "ok" {
            if added != &m[..] {
                return Err(format!("send {} returned ok but the sink got {} of its {} bytes", i, added.len(), m.len()));
            }
        } else {
            // failed, or cut short by the end of the script
            if added.len() > m.len() || added != &m[..added.len()] {
                return Err(format!("send {} failed and the sink got bytes that are not a prefix of the message", i));
            }
            if !added.is_empty() {
                partial_seen = true;
            }
        }
        at = end;
    }
    if run.sink.len() != at {
        return Err(format!("{} bytes reached the sink outside any send", run.sink.len() - at));
    }
    Ok(())
}

impl<'a> Visitor for IoSendVisitor<'a> {
    type Out = ();
    fn visit<T: Shape + ?Sized>(self) {
        let IoSendVisitor { eng, case, header, out } = self;
        let id = header["id"].as_str().unwrap_or("?");
        let props = crate::replay::props_of(case, &eng.default_props);
        let has = |p: &str| props.iter().any(|x| x == p);
        let msgs = arr(&header["msgs"]);
        let imgs = arr(&header["imgs"]);
        let maxlen = header["maxlen"].as_u64().unwrap_or(0) as usize;
        let path = arr(&case["path"]);
        let (script, faults, transient0, abandon) = script_from_send_path(path);
        let exp_rets: Vec<String> = arr(&case["rets"]).iter().map(|r| r.as_str().unwrap_or("").to_string()).collect();
        let class = format!("iosend.{}{}", case["final"].as_str().unwrap_or(""), if faults { ".faults" } else { "" });
        out.count(&class);
        if !abandon.is_empty() {
            out.count("iosend.abandon");
        }
        out.sample(&class, &json!({"header": header, "path": case["path"], "rets": case["rets"], "final": case["final"]}));
        let p = if faults { "C09" } else { "C07" };
        if !has(p) {
            return;
        }
        out.count(&format!("judged.{}", p));
        let total: usize = imgs.iter().map(|m| arr(m).len()).sum();
        let budget = 4 * (total + msgs.len() + 4);
        for mode in [0u8, 1, 2] {
        let variant = ["send", "async-send", "async-send(pending-first)"][mode as usize];
        let run = match run_sender::<T>(msgs, script.clone(), maxlen, budget, mode, &abandon) {
            Obs::Panic(m) => {
                if m.contains(BUDGET) {
                    out.viol(p, "no-return", id, variant, format!("send did not return within {} pipe calls under {:?}", budget, kinds_path(path)));
                } else {
                    out.viol(p, "panic", id, variant, format!("alloc / new_in_place / send panicked: {}", m));
                }
                continue;
            }
            Obs::Ret(r) => r,
        };
        if let Err(e) = sink_framed(&run) {
            out.viol(p, "sink", id, &format!("{}:framing", variant), format!("{} under {:?}", e, kinds_path(path)));
        }
        // keep the recorded run for TLC trace validation (spec/TraceIoSend.tla)
        if mode < 2 {
            if let Some(sink) = &eng.trace_sink {
                let cap = 2 * maxlen.max(T::MIN_SIZE);
                sink.borrow_mut().push(json!({"kind": "iosend", "id": id, "cap": cap, "mode": mode, "events": run.trace}));
            }
        }
        // determined bytes of every message that reached the sink completely
        for (i, m) in run.real_msgs.iter().enumerate() {
            if let Some(img) = imgs.get(i) {
                let img = arr(img);
                if img.len() != m.len() {
                    out.viol(p, "message", id, "size", format!("message {} sent with size() {} reference {}", i, m.len(), img.len()));
                    continue;
                }
                for (k, b) in img.iter().enumerate() {
                    if b.as_i64().unwrap_or(-1) >= 0 && m[k] as i64 != b.as_i64().unwrap() {
                        out.viol(p, "message", id, "image", format!("message {} byte {} is {} reference {}", i, k, m[k], b));
                        break;
                    }
                }
            }
        }
        // the returns, where the model determines them: a transient failure before the first byte may be
        // reported or survived by a retry (not compared); everything else must agree
        let got: Vec<String> = run.rets.iter().filter(|r| *r != "exhausted").cloned().collect();
        if !transient0 {
            let n = got.len().min(exp_rets.len());
            if got[..n] != exp_rets[..n] || (got.len() < exp_rets.len() && !run.poisoned && run.rets.last().map(|r| r != "exhausted").unwrap_or(true)) {
                out.viol(p, "returns", id, &format!("{}:differ", variant), format!("send results {:?} expected {:?} under {:?}", got, exp_rets, kinds_path(path)));
            }
        }
        if case["final"] == "poisoned" && !transient0 && !run.poisoned && got == exp_rets {
            out.viol(p, "poison", id, &format!("{}:not-poisoned", variant), format!("a partial message is in the sink but the sender is not poisoned, under {:?}", kinds_path(path)));
        }
        }
    }
}

fn kinds_path(path: &[Value]) -> Vec<String> {
    path.iter().map(|e| format!("{}{}{}@{}", e["e"].as_str().unwrap_or(""), e["n"], e["kind"].as_str().map(|k| if k.is_empty() { String::new() } else { format!("({})", k) }).unwrap_or_default(), e["pos"])).collect()
}

// ---------------------------------------------------------------------------------------------
// async pair over a bounded in-memory pipe, polled by hand
// ---------------------------------------------------------------------------------------------
use futures::io::{AsyncRead, AsyncWrite};
use std::cell::RefCell;
use std::future::Future;
use std::pin::Pin;
use std::rc::Rc;
use std::task::{Context, Poll};

#[derive(Clone, Debug, PartialEq)]
pub enum AOut {
    /// transfer at most this many bytes
    Limit(usize),
    /// answer Pending although progress is possible
    Spurious,
}

#[derive(Default)]
pub struct APipe {
    pub q: VecDeque<u8>,
    pub cap: usize,
    pub closed_w: bool,
    pub wscript: VecDeque<AOut>,
    pub rscript: VecDeque<AOut>,
    pub fscript: VecDeque<AOut>,
    pub through: Vec<u8>,
    pub flushed_since_write: bool,
    /// per pipe call: (half, "ready"/"pending")
    pub calls: Vec<(char, bool)>,
}

pub struct AWriter(pub Rc<RefCell<APipe>>);
pub struct AReader(pub Rc<RefCell<APipe>>);

impl Drop for AWriter {
    fn drop(&mut self) {
        self.0.borrow_mut().closed_w = true;
    }
}

impl AsyncWrite for AWriter {
    fn poll_write(self: Pin<&mut Self>, _cx: &mut Context<'_>, buf: &[u8]) -> Poll<io::Result<usize>> {
        let mut p = self.0.borrow_mut();
        let free = p.cap - p.q.len();
        if free == 0 {
            p.calls.push(('w', false));
            return Poll::Pending;
        }
        let lim = match p.wscript.pop_front() {
            Some(AOut::Spurious) => {
                p.calls.push(('w', false));
                return Poll::Pending;
            }
            Some(AOut::Limit(k)) => k,
            None => usize::MAX,
        };
        let k = lim.min(free).min(buf.len());
        p.q.extend(&buf[..k]);
        p.through.extend_from_slice(&buf[..k]);
        p.flushed_since_write = false;
        p.calls.push(('w', true));
        Poll::Ready(Ok(k))
    }
    fn poll_flush(self: Pin<&mut Self>, _cx: &mut Context<'_>) -> Poll<io::Result<()>> {
        let mut p = self.0.borrow_mut();
        if let Some(AOut::Spurious) = p.fscript.front() {
            p.fscript.pop_front();
            p.calls.push(('f', false));
            return Poll::Pending;
        }
        p.fscript.pop_front();
        p.flushed_since_write = true;
        p.calls.push(('f', true));
        Poll::Ready(Ok(()))
    }
    fn poll_close(self: Pin<&mut Self>, _cx: &mut Context<'_>) -> Poll<io::Result<()>> {
        self.0.borrow_mut().closed_w = true;
        Poll::Ready(Ok(()))
    }
}

impl AsyncRead for AReader {
    fn poll_read(self: Pin<&mut Self>, _cx: &mut Context<'_>, buf: &mut [u8]) -> Poll<io::Result<usize>> {
        let mut p = self.0.borrow_mut();
        if p.q.is_empty() && !p.closed_w {
            p.calls.push(('r', false));
            return Poll::Pending;
        }
        if let Some(AOut::Spurious) = p.rscript.front() {
            p.rscript.pop_front();
            p.calls.push(('r', false));
            return Poll::Pending;
        }
        if p.q.is_empty() {
            p.calls.push(('r', true));
            return Poll::Ready(Ok(0));
        }
        let lim = match p.rscript.pop_front() {
            Some(AOut::Limit(k)) => k,
            _ => usize::MAX,
        };
        let k = lim.min(p.q.len()).min(buf.len());
        for b in buf.iter_mut().take(k) {
            *b = p.q.pop_front().unwrap();
        }
        p.calls.push(('r', true));
        Poll::Ready(Ok(k))
    }
}

#[derive(Default)]
pub struct ARun {
    pub received: Vec<Value>,
    pub recv_end: Option<String>,
    pub send_results: Vec<(bool, usize, bool)>, // (ok, bytes through the pipe at that moment, flushed since last write)
    pub real_msgs: Vec<Vec<u8>>,
    pub polls: Vec<(char, bool, Option<bool>)>, // (task, ready, last pipe call of this poll was ready?)
    pub through: Vec<u8>,
    pub completed: (bool, bool),
}

pub struct IoAsyncVisitor<'a> {
    pub eng: &'a Engine,
    pub case: &'a Value,
    pub header: &'a Value,
    pub out: &'a mut Out,
}

/// A future that its owner may drop before completion: when the flag is set at a poll, the inner future is
/// not polled any more and is dropped.
pub struct Cancellable<F> {
    inner: Pin<Box<F>>,
    flag: Rc<std::cell::Cell<bool>>,
}
impl<F: Future> Future for Cancellable<F> {
    type Output = Option<F::Output>;
    fn poll(mut self: Pin<&mut Self>, cx: &mut Context<'_>) -> Poll<Self::Output> {
        if self.flag.replace(false) {
            return Poll::Ready(None);
        }
        self.inner.as_mut().poll(cx).map(Some)
    }
}

pub fn run_async_pair<T: Shape + ?Sized>(msgs: &[Value], maxlen: usize, pipe_cap: usize, schedule: &[char], ws: Vec<AOut>, rs: Vec<AOut>, fs: Vec<AOut>, extra_polls: usize) -> Obs<ARun> {
    guarded(|| {
        let pipe = Rc::new(RefCell::new(APipe { cap: pipe_cap, wscript: ws.into(), rscript: rs.into(), fscript: fs.into(), ..Default::default() }));
        let log = Rc::new(RefCell::new(ARun::default()));
        let waker = futures::task::noop_waker();
        let mut cx = Context::from_waker(&waker);
        let (l1, p1) = (log.clone(), pipe.clone());
        let sender_task = async move {
            let mut tx = flatty_io::AsyncSender::<T, _>::io(AWriter(p1.clone()), maxlen);
            for (i, m) in msgs.iter().enumerate() {
                let g = tx.alloc().await.expect("alloc");
                let g = g.new_in_place(T::emp(m, i as u32)).expect("message fits the sender's buffer");
                let size = g.size();
                l1.borrow_mut().real_msgs.push(g.as_bytes()[..size.min(g.as_bytes().len())].to_vec());
                let r = g.send().await;
                let (n, fl) = {
                    let p = p1.borrow();
                    (p.through.len(), p.flushed_since_write)
                };
                l1.borrow_mut().send_results.push((r.is_ok(), n, fl));
                if r.is_err() {
                    break;
                }
            }
            // the sender (and with it the write half) is dropped here: the stream ends
        };
        let (l2, p2) = (log.clone(), pipe.clone());
        let cancel = Rc::new(std::cell::Cell::new(false));
        let cancel2 = cancel.clone();
        let receiver_task = async move {
            let mut rx = flatty_io::AsyncReceiver::<T, _>::io(AReader(p2), maxlen);
            loop {
                // a suspended recv future can be dropped by its owner and recv called again (cancellation)
                let res = match (Cancellable { inner: Box::pin(rx.recv()), flag: cancel2.clone() }).await {
                    None => continue,
                    Some(r) => r,
                };
                match res {
                    Ok(g) => {
                        let mut c = Ctx::unbounded();
                        let v = g.read(&mut c);
                        l2.borrow_mut().received.push(json!({"v": v, "size": g.size(), "lencap": c.lencap}));
                    }
                    Err(RecvError::Closed) => {
                        l2.borrow_mut().recv_end = Some("closed".into());
                        break;
                    }
                    Err(RecvError::Parse(e)) => {
                        l2.borrow_mut().recv_end = Some(format!("parse {}", err_json(&e)));
                        break;
                    }
                    Err(RecvError::Read(e)) => {
                        l2.borrow_mut().recv_end = Some(format!("read error {:?}", e.kind()));
                        break;
                    }
                }
            }
        };
        let mut s: Pin<Box<dyn Future<Output = ()> + '_>> = Box::pin(sender_task);
        let mut r: Pin<Box<dyn Future<Output = ()> + '_>> = Box::pin(receiver_task);
        let (mut sdone, mut rdone) = (false, false);
        let mut poll_one = |t: char, sdone: &mut bool, rdone: &mut bool| {
            if t == 'C' {
                cancel.set(true);
                return;
            }
            let n0 = pipe.borrow().calls.len();
            let ready = if t == 'S' {
                if *sdone { return; }
                let x = s.as_mut().poll(&mut cx).is_ready();
                *sdone = x;
                x
            } else {
                if *rdone { return; }
                let x = r.as_mut().poll(&mut cx).is_ready();
                *rdone = x;
                x
            };
            let last = {
                let p = pipe.borrow();
                if p.calls.len() > n0 { Some(p.calls[p.calls.len() - 1].1) } else { None }
            };
            log.borrow_mut().polls.push((t, ready, last));
        };
        for t in schedule {
            poll_one(*t, &mut sdone, &mut rdone);
        }
        // then fair polling: both futures must complete once the pipe makes progress
        let mut k = 0;
        while (!sdone || !rdone) && k < extra_polls {
            poll_one(if k % 2 == 0 { 'S' } else { 'R' }, &mut sdone, &mut rdone);
            k += 1;
        }
        drop(s);
        drop(r);
        let mut run = std::mem::take(&mut *log.borrow_mut());
        run.through = pipe.borrow().through.clone();
        run.completed = (sdone, rdone);
        run
    })
}

impl<'a> Visitor for IoAsyncVisitor<'a> {
    type Out = ();
    fn visit<T: Shape + ?Sized>(self) {
        let IoAsyncVisitor { eng, case, header, out } = self;
        let id = header["id"].as_str().unwrap_or("?");
        let props = crate::replay::props_of(case, &eng.default_props);
        if !props.iter().any(|x| x == "C08") {
            return;
        }
        let msgs = arr(&header["msgs"]);
        let imgs = arr(&header["imgs"]);
        let maxlen = header["maxlen"].as_u64().unwrap_or(0) as usize;
        let pipe_cap = case["pipecap"].as_u64().or(header["pipecap"].as_u64()).unwrap_or(5) as usize;
        let path = arr(&case["path"]);
        let mut schedule = vec![];
        let (mut ws, mut rs, mut fs) = (vec![], vec![], vec![]);
        let mut spurious = 0;
        let mut cancels = 0;
        for p in path {
            if p["res"] == "cancel" {
                schedule.push('C');
                cancels += 1;
                continue;
            }
            schedule.push(if p["task"] == "S" { 'S' } else { 'R' });
            for e in arr(&p["evs"]) {
                let n = e["n"].as_u64().unwrap_or(0) as usize;
                match e["e"].as_str().unwrap_or("") {
                    "w" => ws.push(AOut::Limit(n)),
                    "wpend" => { ws.push(AOut::Spurious); spurious += 1; }
                    "r" => rs.push(AOut::Limit(n)),
                    "rpend" => { rs.push(AOut::Spurious); spurious += 1; }
                    "fpend" => { fs.push(AOut::Spurious); spurious += 1; }
                    "flush" => fs.push(AOut::Limit(0)),
                    _ => {}
                }
            }
        }
        let class = format!("ioasync.polls{}{}.{}", if spurious > 0 { ".spurious" } else { "" }, if cancels > 0 { ".cancel" } else { "" }, if case["done"][0] == json!(true) && case["done"][1] == json!(true) { "complete" } else { "prefix" });
        out.count(&class);
        out.count("judged.C08");
        out.sample(&class, &json!({"header": header, "path": case["path"], "pipecap": pipe_cap}));
        let total: usize = imgs.iter().map(|m| arr(m).len()).sum();
        let extra = 8 * (total + 4);
        let run = match run_async_pair::<T>(msgs, maxlen, pipe_cap, &schedule, ws, rs, fs, extra) {
            Obs::Panic(m) => {
                out.viol("C08", "panic", id, "poll", format!("a poll panicked: {}", m));
                return;
            }
            Obs::Ret(r) => r,
        };
        if !run.completed.0 || !run.completed.1 {
            out.viol("C08", "no-completion", id, if !run.completed.0 { "send" } else { "recv" }, format!("after the schedule and {} fair polls the futures are not complete: sender {}, receiver {}", extra, run.completed.0, run.completed.1));
            return;
        }
        // delivered = sent, then Closed
        if run.recv_end.as_deref() != Some("closed") {
            out.viol("C08", "returns", id, "end", format!("receiver ended with {:?}", run.recv_end));
        }
        if run.received.len() != msgs.len() {
            out.viol("C08", "delivered", id, "count", format!("{} messages delivered, {} sent", run.received.len(), msgs.len()));
        }
        for (i, got) in run.received.iter().enumerate() {
            if let Some(m) = msgs.get(i) {
                if let Some(d) = content_diff(m, &got["v"], "") {
                    out.viol("C08", "delivered", id, "content", format!("message {}: {}", i, d));
                }
            }
        }
        // every send completed Ok, with all its bytes accepted and a flush after the last write
        let mut cum = 0usize;
        for (i, (ok, through, flushed)) in run.send_results.iter().enumerate() {
            cum += run.real_msgs.get(i).map(|m| m.len()).unwrap_or(0);
            if !ok {
                out.viol("C08", "send", id, "error", format!("send {} failed on a pipe that never fails", i));
            } else if *through < cum {
                out.viol("C08", "send", id, "early-completion", format!("send {} completed with {} of {} bytes handed to the pipe", i, through, cum));
            } else if !flushed {
                out.viol("C08", "send", id, "no-flush", format!("send {} completed without a flush after its last write", i));
            }
        }
        let sent: Vec<u8> = run.real_msgs.concat();
        if run.through != sent {
            out.viol("C08", "stream", id, "bytes", format!("{} bytes went through the pipe, the messages are {} bytes", run.through.len(), sent.len()));
        }
        // a poll returns Pending only if the last pipe call in it answered Pending
        for (i, (t, ready, last)) in run.polls.iter().enumerate() {
            if !ready && *last != Some(false) {
                out.viol("C08", "pending", id, &format!("{}", t), format!("poll {} of task {} returned Pending although its last pipe call was {:?}", i, t, last));
                break;
            }
        }
        // the polls of the path answer as in the model
        for (i, p) in path.iter().filter(|p| p["res"] != "cancel").enumerate() {
            if let Some((_, ready, _)) = run.polls.get(i) {
                let exp_ready = p["res"] == "ready";
                if *ready != exp_ready {
                    out.viol("C08", "poll-result", id, p["task"].as_str().unwrap_or(""), format!("poll {} of task {} is {} in the model and {} in the code", i, p["task"], p["res"], if *ready { "ready" } else { "pending" }));
                    break;
                }
            }
        }
    }
}
