//! Scripted pipes and replay of the IO models' paths against flatty-io (blocking and async).
//!
//! A script is an *environment*: the outcome of every pipe call, in order.  It never presupposes the
//! implementation's buffering policy: `Data(n)` means "up to n bytes" (bounded by what the caller
//! offers and by what is left).  When the script runs out the pipe answers with a distinguished error
//! and the harness stops; a call budget turns a livelock into an observed outcome.
use crate::catalog::Visitor;
use crate::replay::{guarded, tree_diff, Engine, Obs, Out};
use crate::shape::*;
use flatty_io::{verif, Receiver, RecvError, Sender};
use serde_json::{json, Value};
use std::collections::VecDeque;
use std::io;

#[derive(Clone, Debug, PartialEq)]
pub enum POut {
    Data(usize),
    Zero,
    Err,
    Eof,
    /// from now on every call fails this way
    StuckErr,
    StuckZero,
}

pub const EXHAUSTED: &str = "verif: script exhausted";
pub const BUDGET: &str = "verif: call budget exceeded";

pub struct ScriptSource {
    pub stream: Vec<u8>,
    pub rd: usize,
    pub script: VecDeque<POut>,
    pub calls: usize,
    pub budget: usize,
    pub exhausted: bool,
    pub over_budget: bool,
    pub log: Vec<Value>,
}

impl ScriptSource {
    pub fn new(stream: Vec<u8>, script: Vec<POut>, budget: usize) -> Self {
        ScriptSource { stream, rd: 0, script: script.into(), calls: 0, budget, exhausted: false, over_budget: false, log: vec![] }
    }
}

impl io::Read for ScriptSource {
    fn read(&mut self, buf: &mut [u8]) -> io::Result<usize> {
        self.calls += 1;
        if self.calls > self.budget {
            // an error would be one more outcome the code under test may swallow: unwind instead
            panic!("{}", BUDGET);
        }
        match self.script.pop_front() {
            Some(POut::Data(n)) => {
                let k = n.min(buf.len()).min(self.stream.len() - self.rd);
                buf[..k].copy_from_slice(&self.stream[self.rd..self.rd + k]);
                self.log.push(json!({"ev": "read", "offered": buf.len(), "n": k, "pos": self.rd, "data": self.stream[self.rd..self.rd + k].to_vec()}));
                self.rd += k;
                Ok(k)
            }
            Some(POut::Eof) | Some(POut::Zero) => {
                self.log.push(json!({"ev": "read", "offered": buf.len(), "n": 0, "pos": self.rd, "data": []}));
                Ok(0)
            }
            Some(_) => {
                self.log.push(json!({"ev": "readerr", "offered": buf.len(), "pos": self.rd}));
                Err(io::Error::new(io::ErrorKind::ConnectionReset, "verif: injected read error"))
            }
            None => {
                self.exhausted = true;
                Err(io::Error::new(io::ErrorKind::Other, EXHAUSTED))
            }
        }
    }
}

#[derive(Default)]
pub struct SinkState {
    pub sink: Vec<u8>,
    pub calls: usize,
    pub flushes: usize,
    pub exhausted: bool,
}

pub struct ScriptSink {
    pub st: std::rc::Rc<std::cell::RefCell<SinkState>>,
    pub script: VecDeque<POut>,
    pub stuck: Option<POut>,
    pub budget: usize,
}

impl ScriptSink {
    pub fn new(script: Vec<POut>, budget: usize) -> Self {
        ScriptSink { st: Default::default(), script: script.into(), stuck: None, budget }
    }
}

impl io::Write for ScriptSink {
    fn write(&mut self, buf: &[u8]) -> io::Result<usize> {
        let mut st = self.st.borrow_mut();
        st.calls += 1;
        if st.calls > self.budget {
            // an error would be one more outcome the code under test may swallow: unwind instead
            drop(st);
            panic!("{}", BUDGET);
        }
        let o = match &self.stuck {
            Some(s) => Some(s.clone()),
            None => self.script.pop_front(),
        };
        match o {
            Some(POut::Data(n)) => {
                let k = n.min(buf.len());
                st.sink.extend_from_slice(&buf[..k]);
                Ok(k)
            }
            Some(POut::Zero) | Some(POut::Eof) => Ok(0),
            Some(POut::Err) => Err(io::Error::new(io::ErrorKind::ConnectionReset, "verif: injected write error")),
            Some(POut::StuckErr) => {
                self.stuck = Some(POut::StuckErr);
                Err(io::Error::new(io::ErrorKind::ConnectionReset, "verif: injected write error (persistent)"))
            }
            Some(POut::StuckZero) => {
                self.stuck = Some(POut::StuckZero);
                Ok(0)
            }
            None => {
                // the environment has nothing more to say: stop the run here
                st.exhausted = true;
                st.calls -= 1;
                drop(st);
                panic!("{}", EXHAUSTED);
            }
        }
    }
    fn flush(&mut self) -> io::Result<()> {
        self.st.borrow_mut().flushes += 1;
        Ok(())
    }
}

fn is_marker(e: &io::Error, m: &str) -> bool {
    e.to_string().contains(m)
}

pub fn verif_events_json(evs: Vec<verif::Event>) -> Vec<Value> {
    evs.into_iter()
        .map(|e| match e {
            verif::Event::Advance { count, start, end } => json!({"ev": "advance", "n": count, "ws": start, "we": end}),
            verif::Event::Skip { count, start, end } => json!({"ev": "skip", "n": count, "ws": start, "we": end}),
            verif::Event::MakeContiguous { start, end } => json!({"ev": "compact", "ws": start, "we": end}),
            verif::Event::Clear => json!({"ev": "clear"}),
            verif::Event::Poison => json!({"ev": "poison"}),
        })
        .collect()
}

// ---------------------------------------------------------------------------------------------
// blocking receiver
// ---------------------------------------------------------------------------------------------
pub struct IoRecvVisitor<'a> {
    pub eng: &'a Engine,
    pub case: &'a Value,
    pub header: &'a Value,
    pub out: &'a mut Out,
}

/// What one run of the real receiver over a scripted source looked like.
pub struct RecvRun {
    pub rets: Vec<Value>,
    pub trace: Vec<Value>,
    pub over_budget: bool,
    pub max_calls_per_recv: usize,
    pub cap: usize,
}

pub fn run_blocking_receiver<T: Shape + ?Sized>(stream: &[u8], script: Vec<POut>, maxlen: usize, budget: usize) -> Obs<RecvRun> {
    guarded(|| {
        let _ = verif::take();
        let src = ScriptSource::new(stream.to_vec(), script, budget);
        let mut rx = Receiver::<T, _>::io(src, maxlen);
        let cap = rx.verif_buffer().verif_state().2;
        let mut rets = vec![];
        let mut trace: Vec<Value> = vec![];
        let mut max_calls = 0usize;
        loop {
            let c0 = rx.verif_buffer().verif_pipe().calls;
            let (ret, stop) = match rx.recv() {
                Ok(g) => {
                    let mut c = Ctx::unbounded();
                    let val = g.read(&mut c);
                    let size = g.size();
                    (json!({"e": "msg", "v": val, "size": size, "lencap": c.lencap}), false)
                    // the guard is dropped here: skip(size())
                }
                Err(RecvError::Closed) => (json!({"e": "closed"}), true),
                Err(RecvError::Parse(e)) => (json!({"e": "parse", "err": err_json(&e)}), true),
                Err(RecvError::Read(e)) => {
                    if is_marker(&e, EXHAUSTED) {
                        (json!({"e": "exhausted"}), true)
                    } else if is_marker(&e, BUDGET) {
                        (json!({"e": "budget"}), true)
                    } else if e.kind() == io::ErrorKind::OutOfMemory {
                        (json!({"e": "oom"}), true)
                    } else {
                        (json!({"e": "rerr"}), false)
                    }
                }
            };
            // merge what the pipe saw and what the buffer did during this recv (single thread: program order)
            let pipe_log: Vec<Value> = std::mem::take(&mut rx.verif_buffer_mut().verif_pipe_mut().log);
            let hooks = verif_events_json(verif::take());
            trace.push(json!({"ev": "recv", "pipe": pipe_log, "hooks": hooks, "ret": ret}));
            let c1 = rx.verif_buffer().verif_pipe().calls;
            max_calls = max_calls.max(c1 - c0);
            let is_ex = ret["e"] == "exhausted";
            if !is_ex {
                rets.push(ret);
            }
            if stop {
                break;
            }
        }
        let ob = rx.verif_buffer().verif_pipe().over_budget;
        RecvRun { rets, trace, over_budget: ob, max_calls_per_recv: max_calls, cap }
    })
}

fn script_from_recv_path(path: &[Value]) -> (Vec<POut>, Vec<Value>) {
    let mut script = vec![];
    let mut rets = vec![];
    for ev in path {
        match ev["e"].as_str().unwrap_or("") {
            "read" => script.push(POut::Data(ev["n"].as_u64().unwrap_or(0) as usize)),
            "rerr" => {
                script.push(POut::Err);
                rets.push(json!({"e": "rerr"}));
            }
            "closed" => {
                script.push(POut::Eof);
                rets.push(json!({"e": "closed"}));
            }
            "msg" => rets.push(json!({"e": "msg", "size": ev["n"]})),
            "parse" => rets.push(json!({"e": "parse"})),
            "oom" => rets.push(json!({"e": "oom"})),
            _ => {}
        }
    }
    (script, rets)
}

impl<'a> Visitor for IoRecvVisitor<'a> {
    type Out = ();
    fn visit<T: Shape + ?Sized>(self) {
        let IoRecvVisitor { eng, case, header, out } = self;
        let id = header["id"].as_str().unwrap_or("?");
        let props = crate::replay::props_of(case, &eng.default_props);
        let has = |p: &str| props.iter().any(|x| x == p);
        let stream = bytes_of(&header["bytes"]);
        let maxlen = header["maxlen"].as_u64().unwrap_or(0) as usize;
        let cap = header["cap"].as_u64().unwrap_or(0) as usize;
        let valid = header["nmsg"].as_i64().unwrap_or(-1) >= 0;
        let path = arr(&case["path"]);
        let (script, exp_rets) = script_from_recv_path(path);
        let nfaults = path.iter().filter(|e| e["e"] == "rerr").count();
        let class = format!("iorecv.{}.{}{}", if valid { "valid" } else { "arbitrary" }, case["final"].as_str().unwrap_or(""), if nfaults > 0 { ".faults" } else { "" });
        out.count(&class);
        out.sample(&class, &json!({"header": header, "path": case["path"], "final": case["final"]}));
        let owner = |valid: bool, faults: usize| -> &'static str {
            if !valid { "C10" } else if faults > 0 { "C09" } else { "C07" }
        };
        let p = owner(valid, nfaults);
        if !has(p) {
            return;
        }
        out.count(&format!("judged.{}", p));
        let budget = 4 * (cap + 2) * (exp_rets.len() + 2);
        let run = match run_blocking_receiver::<T>(&stream, script, maxlen, budget) {
            Obs::Panic(m) => {
                if m.contains(BUDGET) {
                    out.viol(p, "no-return", id, "recv", "recv did not return within the pipe-call budget".into());
                } else {
                    out.viol(p, "panic", id, "recv", format!("recv / guard drop panicked: {}", m));
                }
                return;
            }
            Obs::Ret(r) => r,
        };
        if run.over_budget || run.max_calls_per_recv > 4 * (cap + 2) {
            out.viol(p, "no-return", id, "recv", format!("recv did not return within the call budget ({} pipe calls in one recv)", run.max_calls_per_recv));
            return;
        }
        // the sequence of returns: kinds, and for messages the content.  The path ends at a pipe call; what
        // the receiver still hands out from bytes it already holds (further messages, a parse error) follows
        // the expected returns and is judged by the paths that contain it explicitly.
        let msgs = arr(&header["msgs"]);
        let mut mi = 0usize;
        if run.rets.len() < exp_rets.len() {
            out.viol(p, "returns", id, "count", format!("returns {:?} expected {:?}", kinds(&run.rets), kinds(&exp_rets)));
            return;
        }
        for (i, got) in run.rets.iter().enumerate() {
            match exp_rets.get(i) {
                Some(exp) => {
                    if got["e"] != exp["e"] {
                        out.viol(p, "returns", id, &format!("{}-vs-{}", got["e"].as_str().unwrap_or(""), exp["e"].as_str().unwrap_or("")), format!("return {} is {} expected {}; all: {:?} expected {:?}", i, got, exp, kinds(&run.rets), kinds(&exp_rets)));
                        return;
                    }
                    if got["e"] == "msg" && got["size"] != exp["size"] {
                        out.viol(p, "message", id, "size", format!("message {} has size() {} expected {}", mi, got["size"], exp["size"]));
                    }
                }
                None => {
                    if !matches!(got["e"].as_str().unwrap_or(""), "msg" | "parse" | "oom") || (valid && got["e"] != "msg") {
                        out.viol(p, "returns", id, &format!("extra-{}", got["e"].as_str().unwrap_or("")), format!("unexpected return {} after the script ended; all: {:?} expected {:?}", got, kinds(&run.rets), kinds(&exp_rets)));
                        return;
                    }
                }
            }
            if got["e"] == "msg" {
                if valid {
                    match msgs.get(mi) {
                        Some(m) => {
                            if let Some(d) = content_diff(m, &got["v"], "") {
                                out.viol(p, "message", id, "content", format!("message {}: {}", mi, d));
                            }
                        }
                        None => out.viol(p, "message", id, "not-sent", format!("message {} was never sent: {}", mi, got["v"])),
                    }
                }
                if got["lencap"].as_array().map(|a| !a.is_empty()).unwrap_or(false) {
                    out.viol(p, "message", id, "len>cap", format!("message {}: {}", mi, got["lencap"]));
                }
                mi += 1;
            }
        }
        // keep the recorded trace for TLC trace validation
        if let Some(sink) = &eng.trace_sink {
            let rec = json!({"kind": "iorecv", "id": id, "stream": stream, "cap": run.cap, "align": T::ALIGN, "events": run.trace});
            sink.borrow_mut().push(rec);
        }
    }
}

/// Compare a *content* of the specification (no capacities / regions: a FlatVec is the sequence of its
/// elements, a FlatString its bytes, a FlexVec the sequence of its items) with a deep read.
pub fn content_diff(c: &Value, got: &Value, path: &str) -> Option<String> {
    match (c, got) {
        (Value::Array(a), Value::Object(o)) => {
            let inner = if let Some(b) = o.get("bytes") { b.clone() } else { o.get("items").cloned().unwrap_or(Value::Null) };
            let items: Vec<Value> = inner.as_array().cloned().unwrap_or_default().into_iter().map(|x| if x.get("v").is_some() && x.get("at").is_some() { x["v"].clone() } else { x }).collect();
            if a.len() != items.len() {
                return Some(format!("{}: length spec {} impl {}", path, a.len(), items.len()));
            }
            a.iter().zip(items.iter()).enumerate().find_map(|(i, (x, y))| content_diff(x, y, &format!("{}[{}]", path, i)))
        }
        (Value::Array(a), Value::Array(b)) => {
            if a.len() != b.len() {
                return Some(format!("{}: length spec {} impl {}", path, a.len(), b.len()));
            }
            a.iter().zip(b.iter()).enumerate().find_map(|(i, (x, y))| content_diff(x, y, &format!("{}[{}]", path, i)))
        }
        (Value::Object(a), Value::Object(b)) => a.iter().find_map(|(k, x)| match b.get(k) {
            Some(y) => content_diff(x, y, &format!("{}.{}", path, k)),
            None => Some(format!("{}.{}: missing in impl", path, k)),
        }),
        _ => if c == got { None } else { Some(format!("{}: spec {} impl {}", path, c, got)) },
    }
}

fn kinds(v: &[Value]) -> Vec<String> {
    v.iter().map(|x| x["e"].as_str().unwrap_or("?").to_string()).collect()
}

// ---------------------------------------------------------------------------------------------
// blocking sender
// ---------------------------------------------------------------------------------------------
pub struct IoSendVisitor<'a> {
    pub eng: &'a Engine,
    pub case: &'a Value,
    pub header: &'a Value,
    pub out: &'a mut Out,
}

pub struct SendRun {
    pub rets: Vec<String>,
    pub real_msgs: Vec<Vec<u8>>,
    pub sink: Vec<u8>,
    pub over_budget: bool,
    pub calls_per_send: Vec<usize>,
    pub sink_after: Vec<usize>,
    pub poisoned: bool,
}

pub fn run_blocking_sender<T: Shape + ?Sized>(msgs: &[Value], script: Vec<POut>, maxlen: usize, budget: usize) -> Obs<SendRun> {
    let pipe = ScriptSink::new(script, budget);
    let st = pipe.st.clone();
    let shared = std::rc::Rc::new(std::cell::RefCell::new(SendRun { rets: vec![], real_msgs: vec![], sink: vec![], over_budget: false, calls_per_send: vec![], sink_after: vec![], poisoned: false }));
    let sh = shared.clone();
    let st2 = st.clone();
    let r = guarded(move || {
        let _ = verif::take();
        let mut tx = Sender::<T, _>::io(pipe, maxlen);
        for (i, m) in msgs.iter().enumerate() {
            if tx.verif_buffer().verif_state().3 {
                // a poisoned sender refuses (the documented assert); nothing may reach the sink any more
                sh.borrow_mut().poisoned = true;
                break;
            }
            let c0 = st2.borrow().calls;
            let g = tx.alloc().expect("alloc");
            let g = match g.new_in_place(T::emp(m, i as u32)) {
                Ok(g) => g,
                Err(e) => panic!("message {} does not fit the sender's buffer: {:?}", i, e),
            };
            let size = g.size();
            sh.borrow_mut().real_msgs.push(g.as_bytes()[..size.min(g.as_bytes().len())].to_vec());
            let r = g.send();
            let c1 = st2.borrow().calls;
            let mut run = sh.borrow_mut();
            run.calls_per_send.push(c1 - c0);
            run.sink_after.push(st2.borrow().sink.len());
            run.rets.push(if r.is_ok() { "ok".into() } else { "err".into() });
            run.poisoned = tx.verif_buffer().verif_state().3;
        }
        let p = tx.verif_buffer().verif_state().3;
        sh.borrow_mut().poisoned = sh.borrow().poisoned || p;
    });
    let finish = |shared: std::rc::Rc<std::cell::RefCell<SendRun>>| {
        let mut run = std::mem::replace(&mut *shared.borrow_mut(), SendRun { rets: vec![], real_msgs: vec![], sink: vec![], over_budget: false, calls_per_send: vec![], sink_after: vec![], poisoned: false });
        run.sink = st.borrow().sink.clone();
        // a send that was cut short by the end of the script has no result
        while run.real_msgs.len() > run.rets.len() {
            run.rets.push("exhausted".into());
            run.sink_after.push(run.sink.len());
        }
        run
    };
    match r {
        Obs::Ret(()) => Obs::Ret(finish(shared)),
        Obs::Panic(m) if m.contains(EXHAUSTED) => Obs::Ret(finish(shared)),
        Obs::Panic(m) => Obs::Panic(m),
    }
}

fn script_from_send_path(path: &[Value]) -> (Vec<POut>, bool, bool) {
    let mut script = vec![];
    let (mut faults, mut transient0) = (false, false);
    for ev in path {
        let n = ev["n"].as_u64().unwrap_or(0) as usize;
        match ev["e"].as_str().unwrap_or("") {
            "w" => script.push(POut::Data(n)),
            "zero" => {
                faults = true;
                if n == 1 { script.push(POut::StuckZero) } else if n == 0 { script.push(POut::Zero) }
            }
            "err" => {
                faults = true;
                if n == 0 && ev["pos"].as_u64() == Some(0) {
                    transient0 = true;
                }
                if n == 1 { script.push(POut::StuckErr) } else if n == 0 { script.push(POut::Err) }
            }
            _ => {}
        }
    }
    (script, faults, transient0)
}

/// SinkFramed on the real run: whole messages (of the sends that returned ok), at most one partial
/// message, nothing after a partial one.
pub fn sink_framed(run: &SendRun) -> Result<(), String> {
    let mut at = 0usize;
    let mut partial_seen = false;
    for (i, r) in run.rets.iter().enumerate() {
        let m = &run.real_msgs[i];
        let end = run.sink_after.get(i).copied().unwrap_or(run.sink.len());
        let added = &run.sink[at.min(run.sink.len())..end.min(run.sink.len())];
        if partial_seen && !added.is_empty() {
            return Err(format!("send {} added {} bytes after a partial message", i, added.len()));
        }
        if r == "ok" {
            if added != &m[..] {
                return Err(format!("send {} returned ok but the sink got {} of its {} bytes", i, added.len(), m.len()));
            }
        } else {
            // failed, or cut short by the end of the script
            if added.len() > m.len() || added != &m[..added.len()] {
                return Err(format!("send {} failed and the sink got bytes that are not a prefix of the message", i));
            }
            if !added.is_empty() {
                partial_seen = true;
            }
        }
        at = end;
    }
    if run.sink.len() != at {
        return Err(format!("{} bytes reached the sink outside any send", run.sink.len() - at));
    }
    Ok(())
}

impl<'a> Visitor for IoSendVisitor<'a> {
    type Out = ();
    fn visit<T: Shape + ?Sized>(self) {
        let IoSendVisitor { eng, case, header, out } = self;
        let id = header["id"].as_str().unwrap_or("?");
        let props = crate::replay::props_of(case, &eng.default_props);
        let has = |p: &str| props.iter().any(|x| x == p);
        let msgs = arr(&header["msgs"]);
        let imgs = arr(&header["imgs"]);
        let maxlen = header["maxlen"].as_u64().unwrap_or(0) as usize;
        let path = arr(&case["path"]);
        let (script, faults, transient0) = script_from_send_path(path);
        let exp_rets: Vec<String> = arr(&case["rets"]).iter().map(|r| r.as_str().unwrap_or("").to_string()).collect();
        let class = format!("iosend.{}{}", case["final"].as_str().unwrap_or(""), if faults { ".faults" } else { "" });
        out.count(&class);
        out.sample(&class, &json!({"header": header, "path": case["path"], "rets": case["rets"], "final": case["final"]}));
        let p = if faults { "C09" } else { "C07" };
        if !has(p) {
            return;
        }
        out.count(&format!("judged.{}", p));
        let total: usize = imgs.iter().map(|m| arr(m).len()).sum();
        let budget = 4 * (total + msgs.len() + 4);
        let run = match run_blocking_sender::<T>(msgs, script, maxlen, budget) {
            Obs::Panic(m) => {
                if m.contains(BUDGET) {
                    out.viol(p, "no-return", id, "send", format!("send did not return within {} pipe calls under {:?}", budget, kinds_path(path)));
                } else {
                    out.viol(p, "panic", id, "send", format!("alloc / new_in_place / send panicked: {}", m));
                }
                return;
            }
            Obs::Ret(r) => r,
        };
        if let Err(e) = sink_framed(&run) {
            out.viol(p, "sink", id, "framing", e);
        }
        // determined bytes of every message that reached the sink completely
        for (i, m) in run.real_msgs.iter().enumerate() {
            if let Some(img) = imgs.get(i) {
                let img = arr(img);
                if img.len() != m.len() {
                    out.viol(p, "message", id, "size", format!("message {} sent with size() {} reference {}", i, m.len(), img.len()));
                    continue;
                }
                for (k, b) in img.iter().enumerate() {
                    if b.as_i64().unwrap_or(-1) >= 0 && m[k] as i64 != b.as_i64().unwrap() {
                        out.viol(p, "message", id, "image", format!("message {} byte {} is {} reference {}", i, k, m[k], b));
                        break;
                    }
                }
            }
        }
        // the returns, where the model determines them: a transient failure before the first byte may be
        // reported or survived by a retry (not compared); everything else must agree
        let got: Vec<String> = run.rets.iter().filter(|r| *r != "exhausted").cloned().collect();
        if !transient0 {
            let n = got.len().min(exp_rets.len());
            if got[..n] != exp_rets[..n] || (got.len() < exp_rets.len() && !run.poisoned && run.rets.last().map(|r| r != "exhausted").unwrap_or(true)) {
                out.viol(p, "returns", id, "differ", format!("send results {:?} expected {:?} under {:?}", got, exp_rets, kinds_path(path)));
            }
        }
        if case["final"] == "poisoned" && !transient0 && !run.poisoned && got == exp_rets {
            out.viol(p, "poison", id, "not-poisoned", "a partial message is in the sink but the sender is not poisoned".into());
        }
    }
}

fn kinds_path(path: &[Value]) -> Vec<String> {
    path.iter().map(|e| format!("{}{}@{}", e["e"].as_str().unwrap_or(""), e["n"], e["pos"])).collect()
}
