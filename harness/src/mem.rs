//! Guarded memory: the slice handed to the library lies as close as the requested address
//! alignment allows to an inaccessible page (a read or write past that end faults) and is
//! surrounded by canary bytes (a write outside the slice is detected after the call).
use std::ptr;

const PAGE: usize = 4096;
const DATA_PAGES: usize = 4;
pub const CANARY: u8 = 0xC7;
const PAD: usize = 48;

pub struct Arena {
    base: *mut u8,
}

#[derive(Clone, Copy, PartialEq, Debug)]
pub enum Place {
    /// end of the slice against the trailing guard page
    End,
    /// start of the slice right after the leading guard page
    Start,
}

pub struct Placed {
    pub ptr: *mut u8,
    pub len: usize,
    before: usize,
    after: usize,
}

impl Arena {
    pub fn new() -> Self {
        unsafe {
            let total = (DATA_PAGES + 2) * PAGE;
            let p = libc::mmap(ptr::null_mut(), total, libc::PROT_READ | libc::PROT_WRITE, libc::MAP_PRIVATE | libc::MAP_ANONYMOUS, -1, 0);
            assert!(p != libc::MAP_FAILED, "mmap failed");
            let base = p as *mut u8;
            assert_eq!(libc::mprotect(base as *mut _, PAGE, libc::PROT_NONE), 0);
            assert_eq!(libc::mprotect(base.add((DATA_PAGES + 1) * PAGE) as *mut _, PAGE, libc::PROT_NONE), 0);
            Arena { base }
        }
    }
    pub fn max_len() -> usize {
        DATA_PAGES * PAGE - 64
    }
    fn data_lo(&self) -> usize {
        self.base as usize + PAGE
    }
    fn data_hi(&self) -> usize {
        self.base as usize + (DATA_PAGES + 1) * PAGE
    }
    /// Place a slice of `len` bytes whose address is congruent to `addr` modulo `modulus`
    /// (modulus: a power of two <= 4096) as close as possible to the chosen guard page.
    pub fn place(&self, len: usize, addr: usize, modulus: usize, place: Place) -> Placed {
        assert!(len <= Self::max_len());
        let m = modulus.max(1);
        let start = match place {
            Place::End => {
                let s = self.data_hi() - len;
                s - ((s + m - (addr % m)) % m)
            }
            Place::Start => {
                let s = self.data_lo();
                s + ((m + (addr % m) - (s % m)) % m)
            }
        };
        let before = (start - self.data_lo()).min(PAD);
        let after = (self.data_hi() - (start + len)).min(PAD);
        unsafe {
            ptr::write_bytes((start - before) as *mut u8, CANARY, before);
            ptr::write_bytes((start + len) as *mut u8, CANARY, after);
        }
        Placed { ptr: start as *mut u8, len, before, after }
    }
}

impl Placed {
    #[allow(clippy::mut_from_ref)]
    pub fn slice(&self) -> &mut [u8] {
        unsafe { std::slice::from_raw_parts_mut(self.ptr, self.len) }
    }
    /// true if every canary byte around the slice is intact
    pub fn canaries_ok(&self) -> bool {
        unsafe {
            let b = std::slice::from_raw_parts(self.ptr.sub(self.before), self.before);
            let a = std::slice::from_raw_parts(self.ptr.add(self.len), self.after);
            b.iter().chain(a.iter()).all(|x| *x == CANARY)
        }
    }
    pub fn lo(&self) -> usize {
        self.ptr as usize
    }
    pub fn hi(&self) -> usize {
        self.ptr as usize + self.len
    }
}

impl Drop for Arena {
    fn drop(&mut self) {
        unsafe {
            libc::munmap(self.base as *mut _, (DATA_PAGES + 2) * PAGE);
        }
    }
}
