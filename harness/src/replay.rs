//! Replay of TLC-generated cases against the real library, and the per-property verdicts.
//!
//! One rule keeps the checks honest: a verdict for property P compares only what P states
//! (DESIGN.md section 2).  Every violation carries a signature `P|check|type|relation`.
use crate::catalog::{dispatch, Visitor};
use crate::mem::{Arena, Place};
use crate::shape::*;
use flatty::prelude::*;
use serde_json::{json, Value};
use std::collections::BTreeMap;
use std::panic::{catch_unwind, AssertUnwindSafe};

#[derive(Default)]
pub struct Out {
    pub violations: Vec<Value>,
    pub counts: BTreeMap<String, u64>,
    pub samples: BTreeMap<String, Value>,
}

impl Out {
    pub fn count(&mut self, key: &str) {
        *self.counts.entry(key.to_string()).or_insert(0) += 1;
    }
    pub fn viol(&mut self, prop: &str, check: &str, id: &str, rel: &str, detail: String) {
        self.violations.push(json!({
            "prop": prop, "sig": format!("{}|{}|{}|{}", prop, check, id, rel), "detail": detail,
        }));
    }
    pub fn sample(&mut self, key: &str, case: &Value) {
        if !self.samples.contains_key(key) {
            self.samples.insert(key.to_string(), case.clone());
        }
    }
}

pub fn props_of(case: &Value, default: &[String]) -> Vec<String> {
    match case.get("props").and_then(|p| p.as_array()) {
        Some(a) => a.iter().filter_map(|x| x.as_str().map(|s| s.to_string())).collect(),
        None => default.to_vec(),
    }
}

/// Compare a tree of the specification with what the accessors returned.
/// `caps`: also compare capacities.  Regions (`reg`) and addresses (`at`) are not content.
pub fn tree_diff(spec: &Value, got: &Value, caps: bool, path: &str) -> Option<String> {
    match (spec, got) {
        (Value::Array(a), Value::Array(b)) => {
            if a.len() != b.len() {
                return Some(format!("{}: length spec {} impl {}", path, a.len(), b.len()));
            }
            for (i, (x, y)) in a.iter().zip(b.iter()).enumerate() {
                if let Some(d) = tree_diff(x, y, caps, &format!("{}[{}]", path, i)) {
                    return Some(d);
                }
            }
            None
        }
        (Value::Object(a), Value::Object(b)) => {
            for (k, x) in a.iter() {
                if k == "reg" || k == "at" || k == "len" || (k == "cap" && !caps) {
                    continue;
                }
                match b.get(k) {
                    Some(y) => {
                        if let Some(d) = tree_diff(x, y, caps, &format!("{}.{}", path, k)) {
                            return Some(d);
                        }
                    }
                    None => return Some(format!("{}.{}: missing in impl", path, k)),
                }
            }
            None
        }
        _ => {
            if spec == got {
                None
            } else {
                Some(format!("{}: spec {} impl {}", path, spec, got))
            }
        }
    }
}

fn kind_class(kind: &str) -> &'static str {
    match kind {
        "InsufficientSize" => "size",
        "BadAlign" => "align",
        "InvalidEnumTag" | "InvalidData" => "content",
        _ => "other",
    }
}

pub struct Engine {
    pub arena: Arena,
    /// second arena for auxiliary mappings (copies), so that they never overlap the slice under test
    pub aux: Arena,
    pub default_props: Vec<String>,
    pub verbose: bool,
    /// header cases (streams / message lists of the IO models), collected in a first pass
    pub headers: Vec<Value>,
    /// recorded traces (for TLC trace validation), if requested
    pub trace_sink: Option<std::cell::RefCell<Vec<Value>>>,
}

/// Observation of one call.
#[derive(Debug)]
pub enum Obs<T> {
    Ret(T),
    Panic(String),
}

pub fn guarded<R>(f: impl FnOnce() -> R) -> Obs<R> {
    match catch_unwind(AssertUnwindSafe(f)) {
        Ok(r) => Obs::Ret(r),
        Err(e) => {
            let msg = if let Some(s) = e.downcast_ref::<&str>() {
                s.to_string()
            } else if let Some(s) = e.downcast_ref::<String>() {
                s.clone()
            } else {
                "panic".to_string()
            };
            Obs::Panic(msg)
        }
    }
}

struct DecVisitor<'a> {
    eng: &'a Engine,
    case: &'a Value,
    out: &'a mut Out,
}

impl<'a> Visitor for DecVisitor<'a> {
    type Out = ();
    fn visit<T: Shape + ?Sized>(self) {
        let DecVisitor { eng, case, out } = self;
        let id = case["id"].as_str().unwrap_or("?");
        let props = props_of(case, &eng.default_props);
        let has = |p: &str| props.iter().any(|x| x == p);
        let bs = bytes_of(&case["bs"]);
        let addr = case["addr"].as_u64().unwrap_or(0) as usize;
        let exp = &case["exp"];
        let exp_ok = exp["ok"].as_bool().unwrap_or(false);
        let mutk = case["mut"]["kind"].as_str().unwrap_or("");
        let cls = if exp_ok { "valid".to_string() } else { exp["cls"].as_str().unwrap_or("?").to_string() };
        out.count(&format!("dec.{}.{}", mutk, cls));
        out.sample(&format!("dec.{}.{}", mutk, cls), case);
        let unsized_ = T::MIN_SIZE != bs.len() || mutk != "base";
        if mutk != "base" {
            if has("C01") { out.count("judged.C01"); }
            if has("C02") { out.count("judged.C02"); }
        }
        if has("C05") && exp_ok && unsized_ { out.count("judged.C05"); }
        if has("C06") && matches!(mutk, "cut" | "ext") { out.count("judged.C06"); }
        if has("C19") && case["c19"]["lo"].as_i64().unwrap_or(-1) >= 0 { out.count("judged.C19"); out.count("c19.applies"); }

        // both placements: the end of the slice against an inaccessible page, and the start right after one
        for place in [Place::End, Place::Start] {
            // (an aligned slice at the end is placed on the type's own alignment, not on 16: for an alignment of 1 its last byte is
            // the last accessible byte, so reading even one byte past a slice of any length faults)
            let modulus = if place == Place::End && addr == 0 { T::ALIGN.max(1) } else { 16 };
            let pl = eng.arena.place(bs.len(), addr, modulus, place);
            pl.slice().copy_from_slice(&bs);
            let tag = if place == Place::End { "end" } else { "start" };

            // ---- validate
            let v = guarded(|| T::validate(pl.slice()));
            let unchanged = pl.slice() == &bs[..] && pl.canaries_ok();
            // ---- from_bytes + deep walk through the accessors
            let fb = guarded(|| {
                let r = T::from_bytes(pl.slice());
                match r {
                    Ok(x) => {
                        let mut c = Ctx::new(pl.lo(), pl.hi());
                        let val = x.read(&mut c);
                        let size = x.size();
                        let ab = x.as_bytes();
                        c.range("as_bytes", ab.as_ptr() as usize, ab.len());
                        let again = T::validate(ab);
                        let view = ab.len();
                        Ok((val, size, view, res_json(&again), c.oob, c.lencap, c.other))
                    }
                    Err(e) => Err(e),
                }
            });
            // ---- from_mut_bytes
            let fm = guarded(|| T::from_mut_bytes(pl.slice()).map(|_| ()));
            let unchanged2 = pl.slice() == &bs[..] && pl.canaries_ok();

            if has("C01") {
                if let Obs::Panic(m) = &v {
                    out.viol("C01", "validate-panic", id, tag, format!("validate panicked: {}", m));
                }
                if let Obs::Panic(m) = &fb {
                    out.viol("C01", "from_bytes-panic", id, tag, format!("from_bytes / accessor walk panicked: {}", m));
                }
                if let Obs::Panic(m) = &fm {
                    out.viol("C01", "from_mut_bytes-panic", id, tag, format!("from_mut_bytes panicked: {}", m));
                }
                if !unchanged || !unchanged2 {
                    out.viol("C01", "write", id, tag, "validation changed bytes inside or outside the slice".into());
                }
            }
            let (vres, fbres) = match (&v, &fb) {
                (Obs::Ret(a), Obs::Ret(b)) => (a, b),
                (Obs::Ret(a), Obs::Panic(m)) => {
                    // validate answered but from_bytes / walking the returned value panicked: the panic itself is C01's
                    // business; for C02 the acceptance can still be judged, and a value that cannot be walked is not a
                    // consistent view of what was checked
                    if has("C02") {
                        if a.is_ok() && !exp_ok {
                            out.viol("C02", "accept", id, &format!("impl=Ok,spec=Err({})", cls), format!("spec rejects ({} at {}), validate accepts; the accessor walk then panicked: {}", exp["kind"], exp["pos"], m));
                        } else if a.is_ok() {
                            out.viol("C02", "inside", id, "accessor-panic", format!("validate accepts, walking the value through its accessors panicked: {}", m));
                        }
                    }
                    continue;
                }
                _ => continue, // panics are C01's business; nothing else can be compared
            };
            if let Obs::Ret(m) = &fm {
                if m.is_ok() != vres.is_ok() && has("C02") {
                    out.viol("C02", "from_mut_bytes-vs-validate", id, tag, format!("validate {:?} from_mut_bytes {:?}", vres, m));
                }
            }
            if vres.is_ok() != fbres.is_ok() && has("C02") {
                out.viol("C02", "from_bytes-vs-validate", id, tag, format!("validate ok={} from_bytes ok={}", vres.is_ok(), fbres.is_ok()));
            }
            if has("C02") {
                // the checked wrapper construction is the same acceptance test
                match guarded(|| flatty::FlatWrap::<T, &[u8]>::from_wrapped_bytes(&*pl.slice()).map(|w| w.size())) {
                    Obs::Ret(w) => {
                        if w.is_ok() != vres.is_ok() {
                            out.viol("C02", "wrap-vs-validate", id, tag, format!("validate ok={} FlatWrap::from_wrapped_bytes ok={}", vres.is_ok(), w.is_ok()));
                        } else if let (Ok(ws), Ok(fb)) = (&w, &fbres) {
                            if *ws != fb.1 {
                                out.viol("C02", "wrap-size", id, tag, format!("size() through FlatWrap {} through from_bytes {}", ws, fb.1));
                            }
                        }
                    }
                    Obs::Panic(m) => out.viol("C02", "wrap-panic", id, tag, format!("FlatWrap::from_wrapped_bytes panicked: {}", m)),
                }
            }

            if has("C02") {
                match fbres {
                    Ok((val, _size, _view, again, oob, lencap, other)) => {
                        if !exp_ok {
                            out.viol("C02", "accept", id, &format!("impl=Ok,spec=Err({})", cls), format!("spec rejects ({} at {}), impl accepts; read {}", exp["kind"], exp["pos"], val));
                        } else if let Some(d) = tree_diff(&exp["val"], val, true, "") {
                            out.viol("C02", "content", id, "differs", d);
                        }
                        if !oob.is_empty() {
                            out.viol("C02", "inside", id, "accessor-outside-slice", oob.join("; "));
                        }
                        if !lencap.is_empty() {
                            out.viol("C02", "lencap", id, "len>cap", lencap.join("; "));
                        }
                        if !other.is_empty() {
                            out.viol("C02", "accessors", id, "inconsistent", other.join("; "));
                        }
                        if again["ok"] != json!(true) {
                            out.viol("C02", "revalidate", id, "own-bytes-rejected", format!("validate(value.as_bytes()) = {}", again));
                        }
                    }
                    Err(e) => {
                        if exp_ok {
                            out.viol("C02", "accept", id, &format!("impl=Err({}),spec=Ok", kind_class(err_json(e)["kind"].as_str().unwrap())), format!("spec accepts, impl rejects with {}", err_json(e)));
                        } else if addr != 0 && exp["cls"] == "align" && bs.len() >= T::MIN_SIZE {
                            // misaligned and large enough: nothing but BadAlign can be the reason
                            if err_json(e)["kind"] != "BadAlign" {
                                out.viol("C02", "misaligned", id, "not-BadAlign", format!("{}", err_json(e)));
                            }
                        }
                    }
                }
            }

            if has("C05") {
                // whatever the library accepts must have a size() inside the slice that is sufficient to map it
                // again; the comparison with the reference extent needs the reference to accept the input too
                if let Ok((val, size, _view, _again, _, _, _)) = fbres {
                    let es = exp["size"].as_u64().unwrap_or(0) as usize;
                    if exp_ok && *size != es {
                        out.viol("C05", "size", id, &format!("impl=spec{:+}", *size as i64 - es as i64), format!("size() = {} reference extent {} for {}", size, es, val));
                    }
                    if *size > bs.len() {
                        out.viol("C05", "size-gt-slice", id, "size()>len", format!("size() = {} mapped from {} bytes", size, bs.len()));
                    } else {
                        // mapping only the first size() bytes again
                        let p2 = eng.aux.place(*size, 0, 16, Place::End);
                        p2.slice().copy_from_slice(&bs[..*size]);
                        let r2 = guarded(|| T::from_bytes(p2.slice()).map(|x| (x.read(&mut Ctx::unbounded()), x.size())));
                        match r2 {
                            Obs::Panic(m) => out.viol("C05", "remap", id, "panic", m),
                            Obs::Ret(Err(e)) => out.viol("C05", "remap", id, "rejected", format!("first size()={} bytes rejected: {}", size, err_json(&e))),
                            Obs::Ret(Ok((v2, s2))) => {
                                if let Some(d) = tree_diff(val, &v2, false, "").or_else(|| tree_diff(&v2, val, false, "")) {
                                    out.viol("C05", "remap", id, "content", d);
                                }
                                if s2 != *size {
                                    out.viol("C05", "remap", id, "size", format!("size() {} after re-mapping {}", s2, size));
                                }
                            }
                        }
                    }
                }
            }

            if has("C06") && case["c06"]["mode"].as_str().map(|m| !m.is_empty()).unwrap_or(false) && addr == 0 {
                let mode = case["c06"]["mode"].as_str().unwrap();
                let refv = &case["ref"]["val"];
                let msize = case["c06"]["size"].as_u64().unwrap_or(0) as usize;
                let need = case["c06"]["need"].as_u64().unwrap_or(0) as usize;
                match (mode, fbres) {
                    ("prefix", Ok((val, _, _, _, _, _, _))) => {
                        if let Some(d) = tree_diff(refv, val, false, "") {
                            out.viol("C06", "prefix", id, "different-message", format!("prefix of {} bytes accepted as a different message: {}", bs.len(), d));
                        } else if bs.len() < need {
                            out.viol("C06", "prefix", id, "accepted-without-data", format!("prefix of {} bytes accepted, message data reaches byte {}", bs.len(), need));
                        }
                    }
                    ("prefix", Err(e)) => {
                        if err_json(e)["kind"] != "InsufficientSize" {
                            out.viol("C06", "prefix", id, &format!("err={}", err_json(e)["kind"].as_str().unwrap()), format!("prefix of {} / {} bytes rejected with {}", bs.len(), msize, err_json(e)));
                        }
                    }
                    ("same", Ok((val, size, _, _, _, _, _))) => {
                        if let Some(d) = tree_diff(refv, val, false, "") {
                            out.viol("C06", "extension", id, "different-message", d);
                        }
                        // "the same size()": compared with what the library itself says for the message alone
                        // (whether that equals the reference extent is C05's question)
                        if msize <= bs.len() {
                            let p2 = eng.aux.place(msize, 0, 16, Place::End);
                            p2.slice().copy_from_slice(&bs[..msize]);
                            if let Obs::Ret(Ok(s0)) = guarded(|| T::from_bytes(p2.slice()).map(|x| x.size())) {
                                if *size != s0 {
                                    out.viol("C06", "extension", id, "size", format!("size() {} of the extended message, {} of the message alone", size, s0));
                                }
                            }
                        }
                    }
                    ("same", Err(e)) => {
                        out.viol("C06", "extension", id, "rejected", format!("message + {} further bytes rejected: {}", bs.len() - msize.min(bs.len()), err_json(e)));
                    }
                    _ => {}
                }
            }

            if has("C19") && case["c19"]["lo"].as_i64().unwrap_or(-1) >= 0 {
                let (lo, hi) = (case["c19"]["lo"].as_u64().unwrap() as usize, case["c19"]["hi"].as_u64().unwrap() as usize);
                match vres {
                    Ok(()) => out.viol("C19", "accepted", id, "ok", format!("corrupted byte {} accepted", case["mut"]["pos"])),
                    Err(e) => {
                        let k = err_json(e);
                        if kind_class(k["kind"].as_str().unwrap()) != "content" {
                            out.viol("C19", "kind", id, k["kind"].as_str().unwrap(), format!("corrupted byte {} reported as {}", case["mut"]["pos"], k));
                        } else if e.pos < lo || e.pos > hi {
                            out.viol("C19", "pos", id, &format!("{}", case["mut"]["fk"].as_str().unwrap_or("")), format!("error position {} not in {}..={} (corrupted byte {})", e.pos, lo, hi, case["mut"]["pos"]));
                        }
                    }
                }
            }
        }
    }
}

fn probe_diff(spec: &Value, got: &Value, path: &str) -> Option<String> {
    match spec {
        Value::Object(a) => {
            if a.contains_key("leaf") {
                return None;
            }
            for (k, x) in a.iter() {
                let y = got.get(k).cloned().unwrap_or(Value::Null);
                if let Some(d) = probe_diff(x, &y, &format!("{}.{}", path, k)) {
                    return Some(d);
                }
            }
            None
        }
        Value::Array(a) => {
            let b = got.as_array().cloned().unwrap_or_default();
            if a.len() != b.len() {
                return Some(format!("{}: {} entries expected, {} observed", path, a.len(), b.len()));
            }
            for (i, (x, y)) in a.iter().zip(b.iter()).enumerate() {
                if let Some(d) = probe_diff(x, y, &format!("{}[{}]", path, i)) {
                    return Some(d);
                }
            }
            None
        }
        _ => {
            let same = spec == got || (spec.as_i64() == Some(-1) && got.is_null());
            if same {
                None
            } else {
                Some(format!("{}: reference {} observed {}", path, spec, got))
            }
        }
    }
}

struct LayoutVisitor<'a> {
    eng: &'a Engine,
    case: &'a Value,
    out: &'a mut Out,
}

impl<'a> Visitor for LayoutVisitor<'a> {
    type Out = ();
    fn visit<T: Shape + ?Sized>(self) {
        let LayoutVisitor { eng, case, out } = self;
        let id = case["id"].as_str().unwrap_or("?");
        let f = &case["facts"];
        let img = bytes_of(&case["img"]);
        let l = img.len();
        let u = |k: &str| f[k].as_u64().unwrap_or(0) as usize;
        out.count("layout.case");
        out.count("judged.C04");
        if l > T::MIN_SIZE || !f["sized"].as_bool().unwrap_or(true) {
            out.count("layout.unsized");
        }
        out.sample(&format!("layout.{}", if f["sized"] == json!(true) { "sized" } else { "unsized" }), case);
        if T::ALIGN != u("align") {
            out.viol("C04", "align", id, "const", format!("ALIGN = {} reference {}", T::ALIGN, u("align")));
        }
        if T::MIN_SIZE != u("min") {
            out.viol("C04", "min_size", id, "const", format!("MIN_SIZE = {} reference {}", T::MIN_SIZE, u("min")));
        }
        let pl = eng.arena.place(l, 0, 16, Place::End);
        pl.slice().copy_from_slice(&img);
        let r = guarded(|| {
            let x = match T::from_bytes(pl.slice()) {
                Ok(x) => x,
                // the image is valid by the specification; whether the library accepts it is C02's question
                Err(_) => unsafe { T::from_bytes_unchecked(pl.slice()) },
            };
            (std::mem::align_of_val(x), std::mem::size_of_val(x), x.as_bytes().len(), x as *const T as *const u8 as usize - pl.lo(), x.probe(pl.lo()), x.size())
        });
        match r {
            Obs::Panic(m) => out.viol("C04", "probe", id, "panic", m),
            Obs::Ret((av, sv, ab, at, probe, extent)) => {
                // the computed extent of the probe value: end of the last field by the C rule, rounded to the alignment
                if let Some(e) = case["extent"].as_u64() {
                    if extent != e as usize {
                        out.viol("C04", "extent", id, "size()", format!("size() = {} but the C layout puts the end of the value at {} (slice of {} bytes)", extent, e, l));
                    }
                }
                if av != u("align") {
                    out.viol("C04", "align", id, "align_of_val", format!("align_of_val = {} reference {}", av, u("align")));
                }
                if sv != u("view") {
                    out.viol("C04", "view", id, "size_of_val", format!("size_of_val = {} reference {} (slice of {} bytes)", sv, u("view"), l));
                }
                if sv > l {
                    out.viol("C04", "view", id, "size_of_val>slice", format!("size_of_val = {} of a value mapped from {} bytes", sv, l));
                }
                // (that as_bytes() covers the whole view is what C02's "own bytes validate again" needs; C04 only
                // states that nothing claims more than the slice / the compiler's size)
                if ab > sv {
                    out.viol("C04", "view", id, "as_bytes>size_of_val", format!("as_bytes().len() = {} but size_of_val = {} (slice of {} bytes)", ab, sv, l));
                }
                if ab > l {
                    out.viol("C04", "view", id, "as_bytes>slice", format!("as_bytes().len() = {} of a value mapped from {} bytes", ab, l));
                }
                if at != 0 {
                    out.viol("C04", "view", id, "start", format!("value starts at offset {}", at));
                }
                if let Some(d) = probe_diff(&case["probe"], &probe, "") {
                    out.viol("C04", "offset", id, "accessor", d);
                }
            }
        }
    }
}

struct EmpVisitor<'a> {
    eng: &'a Engine,
    case: &'a Value,
    out: &'a mut Out,
}

impl<'a> Visitor for EmpVisitor<'a> {
    type Out = ();
    fn visit<T: Shape + ?Sized>(self) {
        let EmpVisitor { eng, case, out } = self;
        let id = case["id"].as_str().unwrap_or("?");
        let props = props_of(case, &eng.default_props);
        let has = |p: &str| props.iter().any(|x| x == p);
        let l = case["L"].as_u64().unwrap_or(0) as usize;
        let addr = case["addr"].as_u64().unwrap_or(0) as usize;
        let mode = case["mode"].as_str().unwrap_or("new");
        let exp = &case["exp"];
        let o = exp["o"].as_str().unwrap_or("");
        let kinds: Vec<&str> = arr(&exp["kinds"]).iter().filter_map(|k| k.as_str()).collect();
        let portable = case["portable"].as_bool().unwrap_or(false);
        let class = format!("emp.{}.{}{}", mode, o, if addr != 0 { ".misaligned" } else { "" });
        out.count(&class);
        out.sample(&class, case);
        if mode == "default" && !T::has_default() {
            out.count("emp.default.unsupported");
            return;
        }
        if has("C15") { out.count("judged.C15"); }
        if has("C03") && o == "ok" && mode == "new" { out.count("judged.C03"); }
        if has("C20") && mode == "default" && o != "err" { out.count("judged.C20"); }
        if has("C14") { out.count("judged.C14"); }
        if has("C17") && portable { out.count("judged.C17"); }
        if has("C17") && portable && T::ALIGN != 1 {
            out.viol("C17", "align", id, "ALIGN", format!("portable type has ALIGN = {}", T::ALIGN));
        }
        let img: Vec<i64> = arr(&exp["img"]).iter().map(|x| x.as_i64().unwrap_or(-1)).collect();
        let mut first_read: Option<Value> = None;
        for (fi, fill) in [0x00u8, 0xFF, 0x5A].iter().enumerate() {
            let fl = fi as u32;
            let tag = format!("fill{:02x}", fill);
            let pl = eng.arena.place(l, addr, 16, Place::End);
            for b in pl.slice().iter_mut() {
                *b = *fill;
            }
            let via_wrap = fi == 2;
            let r = guarded(|| {
                let res: Result<&mut T, flatty::Error> = if mode == "default" {
                    T::default_in_place_(pl.slice())
                } else if via_wrap {
                    match flatty::FlatWrap::<T, &mut [u8]>::new_in_place(pl.slice(), T::emp(&case["content"], fl)) {
                        Ok(w) => {
                            let _ = &*w;
                            drop(w);
                            Ok(unsafe { T::from_mut_bytes_unchecked(pl.slice()) })
                        }
                        Err(e) => Err(e),
                    }
                } else {
                    T::new_in_place(pl.slice(), T::emp(&case["content"], fl))
                };
                match res {
                    Ok(x) => {
                        let mut c = Ctx::new(pl.lo(), pl.hi());
                        let read = x.read(&mut c);
                        let size = x.size();
                        let ab = x.as_bytes();
                        c.range("as_bytes", ab.as_ptr() as usize, ab.len());
                        let reval = res_json(&T::validate(ab));
                        Ok((read, size, reval, c.oob, c.lencap, c.other))
                    }
                    Err(e) => Err(e),
                }
            });
            if has("C14") && !pl.canaries_ok() {
                out.viol("C14", "outside", id, &format!("emplace.{}", mode), format!("bytes outside the {}-byte slice changed ({})", l, tag));
            }
            let rel = format!("{}.{}", mode, o);
            let res = match r {
                Obs::Panic(m) => {
                    let d = format!("{} (L={}, addr={}, {})", m, l, addr, tag);
                    if has("C15") {
                        out.viol("C15", "panic", id, &rel, d.clone());
                    }
                    // emplacing content that fits and reading it back must not panic either
                    if has("C03") && mode == "new" && o == "ok" {
                        out.viol("C03", "panic", id, &rel, d.clone());
                    }
                    if has("C20") && mode == "default" && o == "ok" {
                        out.viol("C20", "panic", id, &rel, d.clone());
                    }
                    if has("C17") && portable && o == "ok" {
                        out.viol("C17", "panic", id, &rel, d);
                    }
                    continue;
                }
                Obs::Ret(x) => x,
            };
            if let Ok((read, _, _, _, _, _)) = &res {
                // C14: "neighbouring FlexVec items keep their contents" -- on the value the implementation itself built
                // (whatever the reference thinks of the construction): a growing edit of a non-last item must leave
                // every other item as it was
                if has("C14") && read.get("items").and_then(|v| v.as_array()).map(|a| a.len() >= 2 && a[0].get("at").is_some()).unwrap_or(false) {
                    let n = arr(&read["items"]).len();
                    let saved: Vec<u8> = pl.slice().to_vec();
                    for i in 0..n - 1 {
                        let item = &read["items"][i]["v"];
                        let op = if item.get("bytes").is_some() {
                            mk_op("push", 0, json!([97]))
                        } else if item.get("cap").is_some() {
                            match arr(&item["items"]).first() {
                                Some(e0) => mk_op("push", 0, e0.clone()),
                                None => continue,
                            }
                        } else {
                            continue;
                        };
                        let r = guarded(|| {
                            T::from_mut_bytes(pl.slice()).ok().map(|x| {
                                let res = x.apply(&[i], &op, 0);
                                (res, x.read(&mut Ctx::unbounded()))
                            })
                        });
                        if let Obs::Ret(Some((res, after))) = r {
                            if res.get("unsupported").is_none() {
                                out.count("emp.flex.neighbour-probe");
                                let a2 = arr(&after["items"]);
                                let mut bad = a2.len() != n;
                                for j in 0..n.min(a2.len()) {
                                    if j != i && a2[j]["v"] != read["items"][j]["v"] {
                                        bad = true;
                                    }
                                }
                                if bad {
                                    out.viol("C14", "neighbour", id, &format!("emplace.{}:item-edit", rel), format!("after pushing into item {} ({}) the other items changed: {} -> {} ({})", i, res, read, after, tag));
                                }
                            }
                        }
                        pl.slice().copy_from_slice(&saved);
                    }
                }
            }
            match (&res, o) {
                (Err(e), "ok") => {
                    let d = format!("content that fits {} bytes refused: {} ({})", l, err_json(e), tag);
                    if has("C15") { out.viol("C15", "refused", id, &rel, d.clone()); }
                    if has("C03") && mode == "new" { out.viol("C03", "refused", id, &rel, d.clone()); }
                    if has("C20") && mode == "default" { out.viol("C20", "refused", id, &rel, d.clone()); }
                    if has("C17") && portable { out.viol("C17", "refused", id, &format!("addr{}", addr), d); }
                }
                (Err(e), _) => {
                    let k = err_json(e);
                    let kk = k["kind"].as_str().unwrap_or("");
                    if has("C15") && !kinds.iter().any(|x| *x == kk) {
                        out.viol("C15", "error-kind", id, &format!("{}:{}", rel, kk), format!("L={} addr={}: {} expected one of {:?} ({})", l, addr, k, kinds, tag));
                    }
                }
                (Ok(_), "err") => {
                    if has("C15") {
                        out.viol("C15", "accepted", id, &rel, format!("L={} addr={}: accepted, expected {:?} ({})", l, addr, kinds, tag));
                    }
                }
                (Ok((read, size, reval, oob, lencap, other)), _) => {
                    // accepted ("ok", or "either" where an accepting implementation must still be right)
                    let mut probs: Vec<(&str, String)> = vec![];
                    let want = if o == "ok" { exp["tree"].clone() } else { case["content"].clone() };
                    if o == "ok" {
                        if let Some(d) = tree_diff(&want, read, true, "") {
                            probs.push(("readback", d));
                        }
                    }
                    if reval["ok"] != json!(true) {
                        probs.push(("validate", format!("validate(as_bytes()) = {}", reval)));
                    }
                    if !oob.is_empty() || !lencap.is_empty() || !other.is_empty() {
                        probs.push(("accessors", format!("{:?} {:?} {:?}", oob, lencap, other)));
                    }
                    if *size > l {
                        probs.push(("size", format!("size() = {} in a slice of {}", size, l)));
                    }
                    if o == "ok" {
                        for (i, m) in img.iter().enumerate() {
                            if *m >= 0 && pl.slice()[i] as i64 != *m {
                                probs.push(("image", format!("byte {} is {} reference {}", i, pl.slice()[i], m)));
                                break;
                            }
                        }
                    }
                    if has("C05") {
                        out.count("judged.C05");
                        if *size > l {
                            out.viol("C05", "size-gt-slice", id, &format!("emplace.{}", rel), format!("size() = {} of a value constructed in {} bytes ({})", size, l, tag));
                        } else {
                            let p3 = eng.aux.place(*size, 0, 16, Place::End);
                            p3.slice().copy_from_slice(&pl.slice()[..*size]);
                            match guarded(|| T::from_bytes(p3.slice()).map(|y| (y.read(&mut Ctx::unbounded()), y.size()))) {
                                Obs::Panic(m) => out.viol("C05", "remap", id, &format!("emplace.{}:panic", rel), m),
                                Obs::Ret(Err(e)) => out.viol("C05", "remap", id, &format!("emplace.{}:rejected", rel), format!("first size()={} bytes of the constructed value rejected: {} ({})", size, err_json(&e), tag)),
                                Obs::Ret(Ok((yv, ys))) => {
                                    if let Some(d) = tree_diff(read, &yv, false, "").or_else(|| tree_diff(&yv, read, false, "")) {
                                        out.viol("C05", "remap", id, &format!("emplace.{}:content", rel), d);
                                    }
                                    if ys != *size {
                                        out.viol("C05", "remap", id, &format!("emplace.{}:size", rel), format!("size() {} after re-mapping {}", ys, size));
                                    }
                                }
                            }
                        }
                    }
                    for (chk, d) in &probs {
                        let d2 = format!("{} (L={}, {})", d, l, tag);
                        if has("C03") && mode == "new" && o == "ok" { out.viol("C03", chk, id, &rel, d2.clone()); }
                        if has("C15") { out.viol("C15", chk, id, &rel, d2.clone()); }
                        if has("C20") && mode == "default" { out.viol("C20", chk, id, &rel, d2.clone()); }
                        if has("C17") && portable && o == "ok" { out.viol("C17", chk, id, &format!("addr{}", addr), d2.clone()); }
                    }
                    if has("C20") && mode == "default" && o == "ok" {
                        let es = exp["size"].as_u64().unwrap_or(0) as usize;
                        if *size != es {
                            out.viol("C20", "size", id, &rel, format!("size() = {} after default_in_place, minimal size of the default state {} ({})", size, es, tag));
                        }
                        match &first_read {
                            None => first_read = Some(read.clone()),
                            Some(f) => {
                                if let Some(d) = tree_diff(f, read, true, "") {
                                    out.viol("C20", "prior-contents", id, &rel, format!("result depends on the previous contents of the buffer: {}", d));
                                }
                            }
                        }
                        if let Some(rd) = T::rust_default() {
                            if let Some(d) = tree_diff(&rd, read, false, "") {
                                out.viol("C20", "rust-default", id, &rel, format!("differs from Default::default(): {}", d));
                            }
                        }
                    }
                    if has("C17") && portable && o == "ok" {
                        // the bytes of the value are exactly the reference serialisation
                        let es = exp["size"].as_u64().unwrap_or(0) as usize;
                        if *size != es {
                            out.viol("C17", "size", id, &format!("addr{}", addr), format!("size() {} reference {}", size, es));
                        }
                    }
                }
            }
        }
    }
}

struct OpVisitor<'a> {
    eng: &'a Engine,
    case: &'a Value,
    out: &'a mut Out,
}

struct OpObs {
    results: Vec<Value>,
    read: Value,
    size: usize,
    revalidate: Value,
    remap: Option<(Value, usize)>,
    remap_err: Option<String>,
    eq_self: Option<bool>,
    eq_fresh: Option<bool>,
    oob: Vec<String>,
    lencap: Vec<String>,
    other: Vec<String>,
}

impl<'a> Visitor for OpVisitor<'a> {
    type Out = ();
    fn visit<T: Shape + ?Sized>(self) {
        let OpVisitor { eng, case, out } = self;
        let id = case["id"].as_str().unwrap_or("?");
        let props = props_of(case, &eng.default_props);
        let has = |p: &str| props.iter().any(|x| x == p);
        let pre: Vec<i64> = arr(&case["pre"]).iter().map(|x| x.as_i64().unwrap_or(0)).collect();
        let l = pre.len();
        let steps = arr(&case["steps"]);
        let exp = &case["exp"];
        let node = case["node"].as_str().unwrap_or("");
        let via_flex = arr(&case["via"]).iter().any(|k| k == "flex");
        let op0 = steps[0]["op"]["op"].as_str().unwrap_or("");
        let ok0 = steps[0]["ok"].as_bool().unwrap_or(false);
        let anyvalid = exp["anyvalid"].as_bool().unwrap_or(false);
        let follow = steps.len() > 1;
        let class = format!("op.{}.{}.{}{}", node, op0, if ok0 { "ok" } else { "refused" }, if follow { ".follow" } else { "" });
        out.count(&class);
        out.sample(&class, case);
        let j11 = matches!(node, "vec" | "str");
        let j12 = node == "flex" || via_flex;
        let j13 = !ok0 && matches!(node, "vec" | "str" | "flex") && matches!(op0, "push" | "push_slice" | "push_str" | "push_default");
        let j18 = op0 == "assign" && !ok0;
        if has("C11") && j11 { out.count("judged.C11"); }
        if has("C12") && j12 { out.count("judged.C12"); }
        if has("C13") && j13 { out.count("judged.C13"); }
        if has("C14") { out.count("judged.C14"); }
        if has("C18") && j18 { out.count("judged.C18"); }
        if has("C05") { out.count("judged.C05"); }

        for (fi, fill) in [0x00u8, 0xFF, 0x5A].iter().enumerate() {
            let fl = fi as u32;
            let pl = eng.arena.place(l, 0, 16, Place::End);
            let prebytes: Vec<u8> = pre.iter().map(|b| if *b < 0 { *fill } else { *b as u8 }).collect();
            pl.slice().copy_from_slice(&prebytes);
            let tag = format!("fill{:02x}", fill);
            let r = guarded(|| -> Result<OpObs, String> {
                let x = T::from_mut_bytes(pl.slice()).map_err(|e| format!("pre-image rejected: {}", err_json(&e)))?;
                let mut results = vec![];
                for st in steps {
                    let path: Vec<usize> = arr(&st["path"]).iter().map(|p| p.as_u64().unwrap_or(0) as usize).collect();
                    results.push(x.apply(&path, &st["op"], fl));
                }
                let mut c = Ctx::new(pl.lo(), pl.hi());
                let read = x.read(&mut c);
                let size = x.size();
                let ab = x.as_bytes();
                c.range("as_bytes", ab.as_ptr() as usize, ab.len());
                let revalidate = res_json(&T::validate(ab));
                Ok(OpObs { results, read, size, revalidate, remap: None, remap_err: None, eq_self: None, eq_fresh: None, oob: c.oob, lencap: c.lencap, other: c.other })
            });
            let mut obs = match r {
                Obs::Panic(m) => {
                    for p in ["C11", "C12", "C13", "C18"] {
                        let j = match p { "C11" => j11, "C12" => j12, "C13" => j13, _ => j18 };
                        if has(p) && j {
                            out.viol(p, "panic", id, &format!("{}.{}", node, op0), format!("{} ({})", m, tag));
                        }
                    }
                    if has("C14") && !pl.canaries_ok() {
                        out.viol("C14", "outside", id, &format!("{}.{}", node, op0), "bytes outside the slice changed (call panicked)".into());
                    }
                    continue;
                }
                Obs::Ret(Err(m)) => {
                    out.count("op.preimage-rejected");
                    for p in ["C11", "C12", "C13", "C18", "C14", "C05"] {
                        if has(p) {
                            out.viol(p, "preimage", id, node, format!("{} ({})", m, tag));
                        }
                    }
                    continue;
                }
                Obs::Ret(Ok(o)) => o,
            };
            let post: Vec<u8> = pl.slice().to_vec();
            // map the resulting bytes again (all of them, and only the first size() of them)
            {
                let p2 = eng.aux.place(l, 0, 16, Place::Start);
                p2.slice().copy_from_slice(&post);
                let rr = guarded(|| {
                    T::from_bytes(p2.slice()).map(|y| {
                        let yv = y.read(&mut Ctx::unbounded());
                        let eq = T::from_bytes(pl.slice()).ok().and_then(|x| x.eq_(y));
                        (yv, y.size(), eq)
                    })
                });
                match rr {
                    Obs::Ret(Ok((yv, ys, eq))) => {
                        obs.remap = Some((yv, ys));
                        obs.eq_self = eq;
                    }
                    Obs::Ret(Err(e)) => obs.remap_err = Some(format!("{}", err_json(&e))),
                    Obs::Panic(m) => obs.remap_err = Some(format!("panic: {}", m)),
                }
            }
            // a freshly constructed value with the same content, in a buffer with different leftover bytes, compares equal
            {
                let p3 = eng.aux.place(l, 0, 16, Place::Start);
                for b in p3.slice().iter_mut() {
                    *b = 0xA5;
                }
                let readv = obs.read.clone();
                let r3 = guarded(|| match T::new_in_place(p3.slice(), T::emp(&readv, 1)) {
                    Ok(z) => T::from_bytes(pl.slice()).ok().and_then(|x| x.eq_(z)),
                    Err(_) => None,
                });
                if let Obs::Ret(e) = r3 {
                    obs.eq_fresh = e;
                }
            }
            let rel = format!("{}.{}", node, op0);
            let mut generic: Vec<(&str, String, String)> = vec![]; // (check, relation, detail) shared by C11/C12
            for (i, st) in steps.iter().enumerate() {
                let got = &obs.results[i];
                if got.get("unsupported").is_some() {
                    out.count("op.unsupported");
                    generic.push(("harness", "unsupported".into(), format!("{}", got)));
                    continue;
                }
                if got["ok"] != st["ok"] {
                    generic.push(("result", format!("{}:impl={},spec={}", st["op"]["op"].as_str().unwrap_or(""), got["ok"], st["ok"]), format!("step {} {}: result {} expected ok={}", i, st["op"], got, st["ok"])));
                }
                let eret = arr(&st["ret"]);
                if !eret.is_empty() {
                    if let Some(d) = tree_diff(&eret[0], &got["ret"], false, "ret") {
                        generic.push(("ret", "value".into(), d));
                    }
                }
            }
            if !anyvalid {
                if let Some(d) = tree_diff(&exp["tree"], &obs.read, true, "") {
                    generic.push(("state", "differs".into(), format!("after {:?}: {}", steps.iter().map(|s| s["op"]["op"].as_str().unwrap_or("").to_string()).collect::<Vec<_>>(), d)));
                }
            }
            if obs.revalidate["ok"] != json!(true) {
                generic.push(("validate", "own-bytes-rejected".into(), format!("validate(as_bytes()) = {}", obs.revalidate)));
            }
            if !obs.oob.is_empty() || !obs.lencap.is_empty() || !obs.other.is_empty() {
                generic.push(("accessors", "inconsistent".into(), format!("{:?} {:?} {:?}", obs.oob, obs.lencap, obs.other)));
            }
            match (&obs.remap, &obs.remap_err) {
                (Some((yv, _)), _) => {
                    if let Some(d) = tree_diff(&obs.read, yv, true, "").or_else(|| tree_diff(yv, &obs.read, true, "")) {
                        generic.push(("remap", "differs".into(), d));
                    }
                    if obs.eq_self == Some(false) {
                        generic.push(("eq", "not-equal-to-copy".into(), "value != a mapped copy of its own bytes".into()));
                    }
                    if obs.eq_fresh == Some(false) {
                        generic.push(("eq", "not-equal-to-fresh".into(), "value != a freshly constructed value with the same content (other leftover bytes in spare room)".into()));
                    }
                }
                (None, Some(e)) => generic.push(("remap", "rejected".into(), e.clone())),
                _ => {}
            }
            let size_bad = !anyvalid && obs.size != exp["size"].as_u64().unwrap_or(0) as usize;
            for (p, j) in [("C11", j11), ("C12", j12)] {
                if has(p) && j {
                    for (chk, r2, d) in &generic {
                        out.viol(p, chk, id, &format!("{}:{}", rel, r2), format!("{} ({})", d, tag));
                    }
                    if p == "C11" && size_bad {
                        out.viol(p, "size", id, &rel, format!("size() = {} reference {} ({})", obs.size, exp["size"], tag));
                    }
                }
            }
            if has("C13") && j13 {
                // the refused call must not change the observable state; follow-ups behave as in the model
                for (chk, r2, d) in &generic {
                    if *chk == "result" && !follow {
                        continue; // whether the call is refused at all is C11/C12's question
                    }
                    out.viol("C13", chk, id, &format!("{}:{}", rel, r2), format!("{} ({})", d, tag));
                }
                if size_bad {
                    out.viol("C13", "size", id, &rel, format!("size() = {} reference {} ({})", obs.size, exp["size"], tag));
                }
            }
            // the implementation's own refusals: where it answers Err although the reference accepts the call, whether
            // refusing is right is C11 / C12's question, but the state must still be the one before the call
            if has("C13") && !follow && ok0 && matches!(node, "vec" | "str" | "flex") && matches!(op0, "push" | "push_slice" | "push_str" | "push_default")
                && obs.results.first().map(|r| r["ok"] == json!(false)).unwrap_or(false)
            {
                out.count("judged.C13.impl-refusal");
                if let Some(d) = tree_diff(&case["pretree"], &obs.read, true, "") {
                    out.viol("C13", "state", id, &format!("{}:refused-but-changed", rel), format!("the call returned Err but the value changed: {} ({})", d, tag));
                }
            }
            // likewise for assignments the implementation itself refuses although the reference accepts them: whether
            // refusing is right is not C18's question, that the value left behind is valid is
            if has("C18") && op0 == "assign" && ok0 && !follow && obs.results.first().map(|r| r["ok"] == json!(false)).unwrap_or(false) {
                out.count("judged.C18.impl-refusal");
                for (chk, r2, d) in &generic {
                    if matches!(*chk, "validate" | "remap" | "accessors") {
                        out.viol("C18", chk, id, &format!("{}:{}(refused-by-impl)", rel, r2), format!("{} ({})", d, tag));
                    }
                }
            }
            if has("C18") && j18 {
                for (chk, r2, d) in &generic {
                    if matches!(*chk, "validate" | "remap" | "accessors") || (*chk == "state" && !anyvalid) {
                        out.viol("C18", chk, id, &format!("{}:{}", rel, r2), format!("{} ({})", d, tag));
                    }
                }
                // assigning again must not panic either
                let path0: Vec<usize> = arr(&steps[0]["path"]).iter().map(|p| p.as_u64().unwrap_or(0) as usize).collect();
                let again = guarded(|| T::from_mut_bytes(pl.slice()).map(|x| x.apply(&path0, &steps[0]["op"], fl)).is_ok());
                if let Obs::Panic(m) = again {
                    out.viol("C18", "again", id, &rel, format!("second assignment panicked: {} ({})", m, tag));
                }
                pl.slice().copy_from_slice(&post);
            }
            if has("C05") && !anyvalid {
                let es = exp["size"].as_u64().unwrap_or(0) as usize;
                if obs.size != es {
                    out.viol("C05", "size", id, &format!("{}:impl=spec{:+}", rel, obs.size as i64 - es as i64), format!("size() = {} reference extent {} after {} ({})", obs.size, es, rel, tag));
                }
                if obs.size > l {
                    out.viol("C05", "size-gt-slice", id, &rel, format!("size() = {} in a slice of {} ({})", obs.size, l, tag));
                } else {
                    let p3 = eng.aux.place(obs.size, 0, 16, Place::End);
                    p3.slice().copy_from_slice(&post[..obs.size]);
                    match guarded(|| T::from_bytes(p3.slice()).map(|y| (y.read(&mut Ctx::unbounded()), y.size()))) {
                        Obs::Panic(m) => out.viol("C05", "remap", id, &format!("{}:panic", rel), m),
                        Obs::Ret(Err(e)) => out.viol("C05", "remap", id, &format!("{}:rejected", rel), format!("first size()={} bytes rejected: {} ({})", obs.size, err_json(&e), tag)),
                        Obs::Ret(Ok((yv, ys))) => {
                            if let Some(d) = tree_diff(&obs.read, &yv, false, "").or_else(|| tree_diff(&yv, &obs.read, false, "")) {
                                out.viol("C05", "remap", id, &format!("{}:content", rel), d);
                            }
                            if ys != obs.size {
                                out.viol("C05", "remap", id, &format!("{}:size", rel), format!("size() {} after re-mapping {}", ys, obs.size));
                            }
                        }
                    }
                }
            }
            if has("C14") {
                if !pl.canaries_ok() {
                    out.viol("C14", "outside", id, &rel, format!("bytes outside the slice changed ({})", tag));
                }
                if !anyvalid {
                    let mask = arr(&exp["mask"]);
                    for (i, m) in mask.iter().enumerate() {
                        let mv = m.as_i64().unwrap_or(-1);
                        if mv == -2 && post[i] != prebytes[i] {
                            out.viol("C14", "same", id, &rel, format!("byte {} outside the changed part went {} -> {} ({})", i, prebytes[i], post[i], tag));
                            break;
                        }
                        // inside the changed node: a byte the format determines before and after the operation
                        // with the same value belongs to something that was not to be changed (an element before
                        // the one pushed, a neighbouring item's data)
                        if mv >= 0 && pre[i] == mv && post[i] as i64 != mv {
                            out.viol("C14", "kept", id, &rel, format!("byte {} is determined and unchanged by the operation ({}), but went to {} ({})", i, mv, post[i], tag));
                            break;
                        }
                    }
                }
            }
            if has("C17") && case["portable"] == json!(true) && !anyvalid {
                out.count("judged.C17");
                // a portable value is a pure function of its content: every byte inside its extent is determined
                let mask = arr(&exp["mask"]);
                let full = arr(&case["exp"]["img"]);
                let _ = full;
                for (i, m) in mask.iter().enumerate() {
                    let mv = m.as_i64().unwrap_or(-1);
                    if mv >= 0 && post[i] as i64 != mv {
                        out.viol("C17", "image", id, &rel, format!("byte {} is {} reference serialisation {} ({})", i, post[i], mv, tag));
                        break;
                    }
                }
                if obs.size != exp["size"].as_u64().unwrap_or(0) as usize {
                    out.viol("C17", "size", id, &rel, format!("size() = {} reference {} ({})", obs.size, exp["size"], tag));
                }
            }
            if (has("C11") && j11) || (has("C12") && j12) {
                // the bytes the format determines
                if !anyvalid {
                    let mask = arr(&exp["mask"]);
                    for (i, m) in mask.iter().enumerate() {
                        let mv = m.as_i64().unwrap_or(-1);
                        if mv >= 0 && post[i] as i64 != mv {
                            let p = if j11 && has("C11") { "C11" } else { "C12" };
                            out.viol(p, "image", id, &rel, format!("byte {} is {} reference {} ({})", i, post[i], mv, tag));
                            break;
                        }
                    }
                }
            }
        }
    }
}

impl Engine {
    pub fn new(default_props: Vec<String>) -> Self {
        Engine { arena: Arena::new(), aux: Arena::new(), default_props, verbose: false, headers: vec![], trace_sink: None }
    }

    pub fn run_case(&self, case: &Value, out: &mut Out) {
        let n0 = out.violations.len();
        let id = case["id"].as_str().unwrap_or("");
        let kind = case["k"].as_str().unwrap_or("");
        let known = match kind {
            "dec" => dispatch(id, DecVisitor { eng: self, case, out }).is_some(),
            "layout" => dispatch(id, LayoutVisitor { eng: self, case, out }).is_some(),
            "op" => dispatch(id, OpVisitor { eng: self, case, out }).is_some(),
            "emp" => dispatch(id, EmpVisitor { eng: self, case, out }).is_some(),
            "iostream" | "iomsgs" => true,
            "pscalar" => {
                crate::portable::run_case(case, out);
                true
            }
            "iorecv" => {
                let si = &case["si"];
                match self.headers.iter().find(|h| h["k"] == "iostream" && &h["si"] == si) {
                    Some(h) => dispatch(h["id"].as_str().unwrap_or(""), crate::io::IoRecvVisitor { eng: self, case, header: h, out }).is_some(),
                    None => {
                        out.count("unknown-header.iorecv");
                        true
                    }
                }
            }
            "ioasync" => match self.headers.iter().find(|h| h["k"] == "iomsgs") {
                Some(h) => dispatch(h["id"].as_str().unwrap_or(""), crate::io::IoAsyncVisitor { eng: self, case, header: h, out }).is_some(),
                None => {
                    out.count("unknown-header.ioasync");
                    true
                }
            },
            "iosend" => match self.headers.iter().find(|h| h["k"] == "iomsgs") {
                Some(h) => dispatch(h["id"].as_str().unwrap_or(""), crate::io::IoSendVisitor { eng: self, case, header: h, out }).is_some(),
                None => {
                    out.count("unknown-header.iosend");
                    true
                }
            },
            _ => {
                out.count(&format!("unknown-kind.{}", kind));
                true
            }
        };
        if !known {
            out.count(&format!("unknown-type.{}", id));
        }
        for v in out.violations[n0..].iter_mut() {
            v["case"] = case.clone();
        }
    }
}
