//! Replay of TLC-generated cases against the real library, and the per-property verdicts.
//!
//! One rule keeps the checks honest: a verdict for property P compares only what P states
//! (DESIGN.md section 2).  Every violation carries a signature `P|check|type|relation`.
use crate::catalog::{dispatch, Visitor};
use crate::mem::{Arena, Place};
use crate::shape::*;
use flatty::prelude::*;
use serde_json::{json, Value};
use std::collections::BTreeMap;
use std::panic::{catch_unwind, AssertUnwindSafe};

#[derive(Default)]
pub struct Out {
    pub violations: Vec<Value>,
    pub counts: BTreeMap<String, u64>,
    pub samples: BTreeMap<String, Value>,
}

impl Out {
    pub fn count(&mut self, key: &str) {
        *self.counts.entry(key.to_string()).or_insert(0) += 1;
    }
    pub fn viol(&mut self, prop: &str, check: &str, id: &str, rel: &str, detail: String) {
        self.violations.push(json!({
            "prop": prop, "sig": format!("{}|{}|{}|{}", prop, check, id, rel), "detail": detail,
        }));
    }
    pub fn sample(&mut self, key: &str, case: &Value) {
        if !self.samples.contains_key(key) {
            self.samples.insert(key.to_string(), case.clone());
        }
    }
}

pub fn props_of(case: &Value, default: &[String]) -> Vec<String> {
    match case.get("props").and_then(|p| p.as_array()) {
        Some(a) => a.iter().filter_map(|x| x.as_str().map(|s| s.to_string())).collect(),
        None => default.to_vec(),
    }
}

/// Compare a tree of the specification with what the accessors returned.
/// `caps`: also compare capacities.  Regions (`reg`) and addresses (`at`) are not content.
pub fn tree_diff(spec: &Value, got: &Value, caps: bool, path: &str) -> Option<String> {
    match (spec, got) {
        (Value::Array(a), Value::Array(b)) => {
            if a.len() != b.len() {
                return Some(format!("{}: length spec {} impl {}", path, a.len(), b.len()));
            }
            for (i, (x, y)) in a.iter().zip(b.iter()).enumerate() {
                if let Some(d) = tree_diff(x, y, caps, &format!("{}[{}]", path, i)) {
                    return Some(d);
                }
            }
            None
        }
        (Value::Object(a), Value::Object(b)) => {
            for (k, x) in a.iter() {
                if k == "reg" || k == "at" || k == "len" || (k == "cap" && !caps) {
                    continue;
                }
                match b.get(k) {
                    Some(y) => {
                        if let Some(d) = tree_diff(x, y, caps, &format!("{}.{}", path, k)) {
                            return Some(d);
                        }
                    }
                    None => return Some(format!("{}.{}: missing in impl", path, k)),
                }
            }
            None
        }
        _ => {
            if spec == got {
                None
            } else {
                Some(format!("{}: spec {} impl {}", path, spec, got))
            }
        }
    }
}

fn kind_class(kind: &str) -> &'static str {
    match kind {
        "InsufficientSize" => "size",
        "BadAlign" => "align",
        "InvalidEnumTag" | "InvalidData" => "content",
        _ => "other",
    }
}

pub struct Engine {
    pub arena: Arena,
    pub default_props: Vec<String>,
    pub verbose: bool,
}

/// Observation of one call.
#[derive(Debug)]
pub enum Obs<T> {
    Ret(T),
    Panic(String),
}

pub fn guarded<R>(f: impl FnOnce() -> R) -> Obs<R> {
    match catch_unwind(AssertUnwindSafe(f)) {
        Ok(r) => Obs::Ret(r),
        Err(e) => {
            let msg = if let Some(s) = e.downcast_ref::<&str>() {
                s.to_string()
            } else if let Some(s) = e.downcast_ref::<String>() {
                s.clone()
            } else {
                "panic".to_string()
            };
            Obs::Panic(msg)
        }
    }
}

struct DecVisitor<'a> {
    eng: &'a Engine,
    case: &'a Value,
    out: &'a mut Out,
}

impl<'a> Visitor for DecVisitor<'a> {
    type Out = ();
    fn visit<T: Shape + ?Sized>(self) {
        let DecVisitor { eng, case, out } = self;
        let id = case["id"].as_str().unwrap_or("?");
        let props = props_of(case, &eng.default_props);
        let has = |p: &str| props.iter().any(|x| x == p);
        let bs = bytes_of(&case["bs"]);
        let addr = case["addr"].as_u64().unwrap_or(0) as usize;
        let exp = &case["exp"];
        let exp_ok = exp["ok"].as_bool().unwrap_or(false);
        let mutk = case["mut"]["kind"].as_str().unwrap_or("");
        let cls = if exp_ok { "valid".to_string() } else { exp["cls"].as_str().unwrap_or("?").to_string() };
        out.count(&format!("dec.{}.{}", mutk, cls));
        out.sample(&format!("dec.{}.{}", mutk, cls), case);
        let unsized_ = T::MIN_SIZE != bs.len() || mutk != "base";
        if mutk != "base" {
            if has("C01") { out.count("judged.C01"); }
            if has("C02") { out.count("judged.C02"); }
        }
        if has("C05") && exp_ok && unsized_ { out.count("judged.C05"); }
        if has("C06") && matches!(mutk, "cut" | "ext") { out.count("judged.C06"); }
        if has("C19") && case["c19"]["lo"].as_i64().unwrap_or(-1) >= 0 { out.count("judged.C19"); out.count("c19.applies"); }

        // both placements: the end of the slice against an inaccessible page, and the start right after one
        for place in [Place::End, Place::Start] {
            let pl = eng.arena.place(bs.len(), addr, 16, place);
            pl.slice().copy_from_slice(&bs);
            let tag = if place == Place::End { "end" } else { "start" };

            // ---- validate
            let v = guarded(|| T::validate(pl.slice()));
            let unchanged = pl.slice() == &bs[..] && pl.canaries_ok();
            // ---- from_bytes + deep walk through the accessors
            let fb = guarded(|| {
                let r = T::from_bytes(pl.slice());
                match r {
                    Ok(x) => {
                        let mut c = Ctx::new(pl.lo(), pl.hi());
                        let val = x.read(&mut c);
                        let size = x.size();
                        let ab = x.as_bytes();
                        c.range("as_bytes", ab.as_ptr() as usize, ab.len());
                        let again = T::validate(ab);
                        let view = ab.len();
                        Ok((val, size, view, res_json(&again), c.oob, c.lencap, c.other))
                    }
                    Err(e) => Err(e),
                }
            });
            // ---- from_mut_bytes
            let fm = guarded(|| T::from_mut_bytes(pl.slice()).map(|_| ()));
            let unchanged2 = pl.slice() == &bs[..] && pl.canaries_ok();

            if has("C01") {
                if let Obs::Panic(m) = &v {
                    out.viol("C01", "validate-panic", id, tag, format!("validate panicked: {}", m));
                }
                if let Obs::Panic(m) = &fb {
                    out.viol("C01", "from_bytes-panic", id, tag, format!("from_bytes / accessor walk panicked: {}", m));
                }
                if let Obs::Panic(m) = &fm {
                    out.viol("C01", "from_mut_bytes-panic", id, tag, format!("from_mut_bytes panicked: {}", m));
                }
                if !unchanged || !unchanged2 {
                    out.viol("C01", "write", id, tag, "validation changed bytes inside or outside the slice".into());
                }
            }
            let (vres, fbres) = match (&v, &fb) {
                (Obs::Ret(a), Obs::Ret(b)) => (a, b),
                _ => continue, // panics are C01's business; nothing else can be compared
            };
            if let Obs::Ret(m) = &fm {
                if m.is_ok() != vres.is_ok() && has("C02") {
                    out.viol("C02", "from_mut_bytes-vs-validate", id, tag, format!("validate {:?} from_mut_bytes {:?}", vres, m));
                }
            }
            if vres.is_ok() != fbres.is_ok() && has("C02") {
                out.viol("C02", "from_bytes-vs-validate", id, tag, format!("validate ok={} from_bytes ok={}", vres.is_ok(), fbres.is_ok()));
            }

            if has("C02") {
                match fbres {
                    Ok((val, _size, _view, again, oob, lencap, other)) => {
                        if !exp_ok {
                            out.viol("C02", "accept", id, &format!("impl=Ok,spec=Err({})", cls), format!("spec rejects ({} at {}), impl accepts; read {}", exp["kind"], exp["pos"], val));
                        } else if let Some(d) = tree_diff(&exp["val"], val, true, "") {
                            out.viol("C02", "content", id, "differs", d);
                        }
                        if !oob.is_empty() {
                            out.viol("C02", "inside", id, "accessor-outside-slice", oob.join("; "));
                        }
                        if !lencap.is_empty() {
                            out.viol("C02", "lencap", id, "len>cap", lencap.join("; "));
                        }
                        if !other.is_empty() {
                            out.viol("C02", "accessors", id, "inconsistent", other.join("; "));
                        }
                        if again["ok"] != json!(true) {
                            out.viol("C02", "revalidate", id, "own-bytes-rejected", format!("validate(value.as_bytes()) = {}", again));
                        }
                    }
                    Err(e) => {
                        if exp_ok {
                            out.viol("C02", "accept", id, &format!("impl=Err({}),spec=Ok", kind_class(err_json(e)["kind"].as_str().unwrap())), format!("spec accepts, impl rejects with {}", err_json(e)));
                        } else if addr != 0 && exp["cls"] == "align" && bs.len() >= T::MIN_SIZE {
                            // misaligned and large enough: nothing but BadAlign can be the reason
                            if err_json(e)["kind"] != "BadAlign" {
                                out.viol("C02", "misaligned", id, "not-BadAlign", format!("{}", err_json(e)));
                            }
                        }
                    }
                }
            }

            if has("C05") && exp_ok {
                if let Ok((val, size, _view, _again, _, _, _)) = fbres {
                    let es = exp["size"].as_u64().unwrap_or(0) as usize;
                    if *size != es {
                        out.viol("C05", "size", id, &format!("impl=spec{:+}", *size as i64 - es as i64), format!("size() = {} reference extent {} for {}", size, es, val));
                    }
                    if *size > bs.len() {
                        out.viol("C05", "size-gt-slice", id, "size()>len", format!("size() = {} mapped from {} bytes", size, bs.len()));
                    } else {
                        // mapping only the first size() bytes again
                        let p2 = eng.arena.place(*size, 0, 16, Place::End);
                        p2.slice().copy_from_slice(&bs[..*size]);
                        let r2 = guarded(|| T::from_bytes(p2.slice()).map(|x| (x.read(&mut Ctx::unbounded()), x.size())));
                        match r2 {
                            Obs::Panic(m) => out.viol("C05", "remap", id, "panic", m),
                            Obs::Ret(Err(e)) => out.viol("C05", "remap", id, "rejected", format!("first size()={} bytes rejected: {}", size, err_json(&e))),
                            Obs::Ret(Ok((v2, s2))) => {
                                if let Some(d) = tree_diff(val, &v2, false, "").or_else(|| tree_diff(&v2, val, false, "")) {
                                    out.viol("C05", "remap", id, "content", d);
                                }
                                if s2 != *size {
                                    out.viol("C05", "remap", id, "size", format!("size() {} after re-mapping {}", s2, size));
                                }
                            }
                        }
                    }
                }
            }

            if has("C06") && case["c06"]["mode"].as_str().map(|m| !m.is_empty()).unwrap_or(false) && addr == 0 {
                let mode = case["c06"]["mode"].as_str().unwrap();
                let refv = &case["ref"]["val"];
                let msize = case["c06"]["size"].as_u64().unwrap_or(0) as usize;
                let need = case["c06"]["need"].as_u64().unwrap_or(0) as usize;
                match (mode, fbres) {
                    ("prefix", Ok((val, _, _, _, _, _, _))) => {
                        if let Some(d) = tree_diff(refv, val, false, "") {
                            out.viol("C06", "prefix", id, "different-message", format!("prefix of {} bytes accepted as a different message: {}", bs.len(), d));
                        } else if bs.len() < need {
                            out.viol("C06", "prefix", id, "accepted-without-data", format!("prefix of {} bytes accepted, message data reaches byte {}", bs.len(), need));
                        }
                    }
                    ("prefix", Err(e)) => {
                        if err_json(e)["kind"] != "InsufficientSize" {
                            out.viol("C06", "prefix", id, &format!("err={}", err_json(e)["kind"].as_str().unwrap()), format!("prefix of {} / {} bytes rejected with {}", bs.len(), msize, err_json(e)));
                        }
                    }
                    ("same", Ok((val, size, _, _, _, _, _))) => {
                        if let Some(d) = tree_diff(refv, val, false, "") {
                            out.viol("C06", "extension", id, "different-message", d);
                        }
                        // "the same size()": compared with what the library itself says for the message alone
                        // (whether that equals the reference extent is C05's question)
                        if msize <= bs.len() {
                            let p2 = eng.arena.place(msize, 0, 16, Place::End);
                            p2.slice().copy_from_slice(&bs[..msize]);
                            if let Obs::Ret(Ok(s0)) = guarded(|| T::from_bytes(p2.slice()).map(|x| x.size())) {
                                if *size != s0 {
                                    out.viol("C06", "extension", id, "size", format!("size() {} of the extended message, {} of the message alone", size, s0));
                                }
                            }
                        }
                    }
                    ("same", Err(e)) => {
                        out.viol("C06", "extension", id, "rejected", format!("message + {} further bytes rejected: {}", bs.len() - msize.min(bs.len()), err_json(e)));
                    }
                    _ => {}
                }
            }

            if has("C19") && case["c19"]["lo"].as_i64().unwrap_or(-1) >= 0 {
                let (lo, hi) = (case["c19"]["lo"].as_u64().unwrap() as usize, case["c19"]["hi"].as_u64().unwrap() as usize);
                match vres {
                    Ok(()) => out.viol("C19", "accepted", id, "ok", format!("corrupted byte {} accepted", case["mut"]["pos"])),
                    Err(e) => {
                        let k = err_json(e);
                        if kind_class(k["kind"].as_str().unwrap()) != "content" {
                            out.viol("C19", "kind", id, k["kind"].as_str().unwrap(), format!("corrupted byte {} reported as {}", case["mut"]["pos"], k));
                        } else if e.pos < lo || e.pos > hi {
                            out.viol("C19", "pos", id, &format!("{}", case["mut"]["fk"].as_str().unwrap_or("")), format!("error position {} not in {}..={} (corrupted byte {})", e.pos, lo, hi, case["mut"]["pos"]));
                        }
                    }
                }
            }
        }
    }
}

impl Engine {
    pub fn new(default_props: Vec<String>) -> Self {
        Engine { arena: Arena::new(), default_props, verbose: false }
    }

    pub fn run_case(&self, case: &Value, out: &mut Out) {
        let n0 = out.violations.len();
        let id = case["id"].as_str().unwrap_or("");
        let kind = case["k"].as_str().unwrap_or("");
        let known = match kind {
            "dec" => dispatch(id, DecVisitor { eng: self, case, out }).is_some(),
            _ => {
                out.count(&format!("unknown-kind.{}", kind));
                true
            }
        };
        if !known {
            out.count(&format!("unknown-type.{}", id));
        }
        for v in out.violations[n0..].iter_mut() {
            v["case"] = case.clone();
        }
    }
}
