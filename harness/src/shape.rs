//! `Shape`: the harness-side view of a flat type.  Everything goes through flatty's *public* API
//! (accessors, emplacers, container operations); the JSON value model is the one of the TLA+
//! specification (spec/FlatCodec.tla, "Trees").
#![allow(clippy::all)]

use flatty::{
    emplacer::Emplacer,
    error::{Error, ErrorKind},
    flex::{self, FlexVec},
    portable::{be, le, Bool},
    prelude::*,
    string::{self, FlatString},
    vec::{self, FlatVec, Length},
};
use serde_json::{json, Value};
use std::mem::size_of_val;

/// Collects consistency observations while a value is walked through its accessors.
pub struct Ctx {
    pub lo: usize,
    pub hi: usize,
    pub oob: Vec<String>,
    pub lencap: Vec<String>,
    pub other: Vec<String>,
}

impl Ctx {
    pub fn new(lo: usize, hi: usize) -> Self {
        Ctx { lo, hi, oob: vec![], lencap: vec![], other: vec![] }
    }
    pub fn unbounded() -> Self {
        Ctx::new(0, usize::MAX)
    }
    pub fn range(&mut self, what: &str, a: usize, len: usize) {
        if len == 0 {
            // an empty range is "inside" wherever it points, as long as it is not before/after the slice
            if a < self.lo || a > self.hi {
                self.oob.push(format!("{} empty@{:+}", what, a as isize - self.lo as isize));
            }
            return;
        }
        if a < self.lo || a.checked_add(len).map(|e| e > self.hi).unwrap_or(true) {
            self.oob.push(format!(
                "{} [{:+}..{:+}) outside [0..{})",
                what,
                a as isize - self.lo as isize,
                a as isize - self.lo as isize + len as isize,
                self.hi - self.lo
            ));
        }
    }
    pub fn node<T: ?Sized>(&mut self, what: &str, r: &T) {
        self.range(what, r as *const T as *const u8 as usize, size_of_val(r));
    }
}

pub fn err_json(e: &Error) -> Value {
    let k = match e.kind {
        ErrorKind::InsufficientSize => "InsufficientSize",
        ErrorKind::BadAlign => "BadAlign",
        ErrorKind::InvalidEnumTag => "InvalidEnumTag",
        ErrorKind::InvalidData => "InvalidData",
        ErrorKind::Other => "Other",
    };
    json!({"kind": k, "pos": e.pos})
}

pub fn res_json<T>(r: &Result<T, Error>) -> Value {
    match r {
        Ok(_) => json!({"ok": true}),
        Err(e) => {
            let mut v = err_json(e);
            v["ok"] = json!(false);
            v
        }
    }
}

pub fn bytes_of(v: &Value) -> Vec<u8> {
    v.as_array().map(|a| a.iter().map(|x| x.as_u64().unwrap_or(0) as u8).collect()).unwrap_or_default()
}
pub fn arr(v: &Value) -> &[Value] {
    v.as_array().map(|a| a.as_slice()).unwrap_or(&[])
}

pub trait Shape: Flat {
    /// A real library emplacer for this type, built from a tree of the specification.
    type Emp<'a>: Emplacer<Self>;
    /// `fl` selects the emplacer flavour where the library offers several.
    fn emp<'a>(v: &'a Value, fl: u32) -> Self::Emp<'a>;
    /// Deep walk through the public accessors.
    fn read(&self, c: &mut Ctx) -> Value;
    /// Apply `op` to the node addressed by `path`.
    fn apply(&mut self, path: &[usize], op: &Value, fl: u32) -> Value {
        if path.is_empty() {
            self.apply_here(op, fl)
        } else {
            self.apply_child(path, op, fl)
        }
    }
    fn apply_child(&mut self, _path: &[usize], _op: &Value, _fl: u32) -> Value {
        json!({"unsupported": "path"})
    }
    fn apply_here(&mut self, op: &Value, fl: u32) -> Value {
        self.apply_common(op, fl)
    }
    fn apply_common(&mut self, op: &Value, fl: u32) -> Value {
        match op["op"].as_str().unwrap_or("") {
            "assign" => {
                let r = self.assign_in_place(Self::emp(&op["v"], fl));
                res_json(&r)
            }
            _ => json!({"unsupported": op["op"]}),
        }
    }
    /// Addresses (relative to `base`) of what the accessors hand out: fields, payload fields, container data.
    fn probe(&self, _base: usize) -> Value {
        json!({})
    }
    fn has_default() -> bool {
        false
    }
    fn default_in_place_(_bytes: &mut [u8]) -> Result<&mut Self, Error> {
        unreachable!()
    }
    fn flex_push_default<L: Flat + Length>(_fv: &mut FlexVec<Self, L>) -> Option<Value> {
        None
    }
    /// `==` against another mapped value of the same type, where the type offers it.
    fn eq_(&self, _other: &Self) -> Option<bool> {
        None
    }
    /// Default::default() read back, for sized types that have it.
    fn rust_default() -> Option<Value> {
        None
    }
    /// A random *content* of this type (the specification's content form), for the seeded drivers.
    fn rand_content(rng: &mut crate::drive::Rng, depth: usize) -> Value;
    /// A random operation applicable in the current state: (path, operation).
    fn rand_op(&self, _rng: &mut crate::drive::Rng) -> Option<(Vec<usize>, Value)> {
        None
    }
}

pub fn mk_op(name: &str, n: usize, v: Value) -> Value {
    json!({"op": name, "n": n, "v": v})
}
pub fn rand_digits(rng: &mut crate::drive::Rng, w: usize) -> Value {
    json!((0..w).map(|_| rng.byte()).collect::<Vec<u8>>())
}
fn prefixed(i: usize, sub: Option<(Vec<usize>, Value)>) -> Option<(Vec<usize>, Value)> {
    sub.map(|(mut p, o)| {
        p.insert(0, i);
        (p, o)
    })
}
pub fn child_op<T: Shape + ?Sized>(i: usize, child: &T, rng: &mut crate::drive::Rng) -> Option<(Vec<usize>, Value)> {
    prefixed(i, child.rand_op(rng))
}

pub trait SizedShape: Shape + Sized + PartialEq + Clone {
    fn from_val(v: &Value) -> Self;
}

#[macro_export]
macro_rules! default_hooks {
    () => {
        fn has_default() -> bool {
            true
        }
        fn default_in_place_(bytes: &mut [u8]) -> Result<&mut Self, flatty::Error> {
            <Self as flatty::FlatDefault>::default_in_place(bytes)
        }
        fn flex_push_default<L_: flatty::Flat + flatty::vec::Length>(fv: &mut flatty::FlexVec<Self, L_>) -> Option<serde_json::Value> {
            Some($crate::shape::res_json(&fv.push_default()))
        }
    };
}

#[macro_export]
macro_rules! sized_hooks {
    () => {
        type Emp<'a> = Self;
        fn emp<'a>(v: &'a serde_json::Value, _fl: u32) -> Self {
            <Self as $crate::shape::SizedShape>::from_val(v)
        }
        fn eq_(&self, other: &Self) -> Option<bool> {
            Some(self == other)
        }
    };
}

fn set_here<T: SizedShape>(this: &mut T, op: &Value, fl: u32) -> Value {
    match op["op"].as_str().unwrap_or("") {
        "set" => {
            *this = T::from_val(&op["v"]);
            json!({"ok": true})
        }
        _ => this.apply_common(op, fl),
    }
}

// ---- scalars -------------------------------------------------------------------------------

macro_rules! impl_int {
    ($($t:ty),*) => {$(
        impl Shape for $t {
            sized_hooks!();
            default_hooks!();
            fn read(&self, c: &mut Ctx) -> Value { c.node(stringify!($t), self); json!(self.to_le_bytes().to_vec()) }
            fn apply_here(&mut self, op: &Value, fl: u32) -> Value { set_here(self, op, fl) }
            fn rust_default() -> Option<Value> { Some(<$t>::default().read(&mut Ctx::unbounded())) }
            fn rand_content(rng: &mut crate::drive::Rng, _d: usize) -> Value { rand_digits(rng, std::mem::size_of::<$t>()) }
            fn rand_op(&self, rng: &mut crate::drive::Rng) -> Option<(Vec<usize>, Value)> { Some((vec![], mk_op("set", 0, Self::rand_content(rng, 0)))) }
        }
        impl SizedShape for $t {
            fn from_val(v: &Value) -> Self { let b = bytes_of(v); <$t>::from_le_bytes(b.as_slice().try_into().expect("digit count")) }
        }
    )*};
}
impl_int!(u8, u16, u32, u64, u128, i8, i16, i32, i64, i128);

macro_rules! impl_float {
    ($t:ty, $bits:ty) => {
        impl Shape for $t {
            type Emp<'a> = Self;
            fn emp<'a>(v: &'a Value, _fl: u32) -> Self { Self::from_val(v) }
            fn eq_(&self, other: &Self) -> Option<bool> { Some(self.to_bits() == other.to_bits()) }
            default_hooks!();
            fn read(&self, c: &mut Ctx) -> Value { c.node(stringify!($t), self); json!(self.to_bits().to_le_bytes().to_vec()) }
            fn apply_here(&mut self, op: &Value, fl: u32) -> Value { set_here(self, op, fl) }
            fn rust_default() -> Option<Value> { Some(<$t>::default().read(&mut Ctx::unbounded())) }
            fn rand_content(rng: &mut crate::drive::Rng, _d: usize) -> Value { rand_digits(rng, std::mem::size_of::<$t>()) }
            fn rand_op(&self, rng: &mut crate::drive::Rng) -> Option<(Vec<usize>, Value)> { Some((vec![], mk_op("set", 0, Self::rand_content(rng, 0)))) }
        }
        impl SizedShape for $t {
            fn from_val(v: &Value) -> Self { let b = bytes_of(v); <$t>::from_bits(<$bits>::from_le_bytes(b.as_slice().try_into().expect("digit count"))) }
        }
    };
}
impl_float!(f32, u32);
impl_float!(f64, u64);

macro_rules! impl_pint {
    ($($t:ty => $n:ty),*) => {$(
        impl Shape for $t {
            sized_hooks!();
            default_hooks!();
            fn read(&self, c: &mut Ctx) -> Value { c.node(stringify!($t), self); json!(<$n>::from(*self).to_le_bytes().to_vec()) }
            fn apply_here(&mut self, op: &Value, fl: u32) -> Value { set_here(self, op, fl) }
            fn rust_default() -> Option<Value> { Some(<$t>::default().read(&mut Ctx::unbounded())) }
            fn rand_content(rng: &mut crate::drive::Rng, _d: usize) -> Value { rand_digits(rng, std::mem::size_of::<$t>()) }
            fn rand_op(&self, rng: &mut crate::drive::Rng) -> Option<(Vec<usize>, Value)> { Some((vec![], mk_op("set", 0, Self::rand_content(rng, 0)))) }
        }
        impl SizedShape for $t {
            fn from_val(v: &Value) -> Self { let b = bytes_of(v); <$t>::from(<$n>::from_le_bytes(b.as_slice().try_into().expect("digit count"))) }
        }
    )*};
}
impl_pint!(le::U16 => u16, le::U32 => u32, le::U64 => u64, le::I16 => i16, le::I32 => i32, le::I64 => i64,
           be::U16 => u16, be::U32 => u32, be::U64 => u64, be::I16 => i16, be::I32 => i32, be::I64 => i64);

macro_rules! impl_pfloat {
    ($($t:ty => $n:ty, $bits:ty),*) => {$(
        impl Shape for $t {
            sized_hooks!();
            default_hooks!();
            fn read(&self, c: &mut Ctx) -> Value { c.node(stringify!($t), self); json!(<$n>::from(*self).to_bits().to_le_bytes().to_vec()) }
            fn apply_here(&mut self, op: &Value, fl: u32) -> Value { set_here(self, op, fl) }
            fn rust_default() -> Option<Value> { Some(<$t>::default().read(&mut Ctx::unbounded())) }
            fn rand_content(rng: &mut crate::drive::Rng, _d: usize) -> Value { rand_digits(rng, std::mem::size_of::<$t>()) }
            fn rand_op(&self, rng: &mut crate::drive::Rng) -> Option<(Vec<usize>, Value)> { Some((vec![], mk_op("set", 0, Self::rand_content(rng, 0)))) }
        }
        impl SizedShape for $t {
            fn from_val(v: &Value) -> Self { let b = bytes_of(v); <$t>::from(<$n>::from_bits(<$bits>::from_le_bytes(b.as_slice().try_into().expect("digit count")))) }
        }
    )*};
}
impl_pfloat!(le::F32 => f32, u32, le::F64 => f64, u64, be::F32 => f32, u32, be::F64 => f64, u64);

impl Shape for () {
    sized_hooks!();
    default_hooks!();
    fn read(&self, _c: &mut Ctx) -> Value {
        json!([])
    }
    fn rust_default() -> Option<Value> {
        Some(json!([]))
    }
    fn rand_content(_rng: &mut crate::drive::Rng, _d: usize) -> Value {
        json!([])
    }
}
impl SizedShape for () {
    fn from_val(_v: &Value) -> Self {}
}

impl Shape for Bool {
    sized_hooks!();
    default_hooks!();
    fn read(&self, c: &mut Ctx) -> Value {
        c.node("Bool", self);
        json!(bool::from(*self) as u8)
    }
    fn apply_here(&mut self, op: &Value, fl: u32) -> Value {
        set_here(self, op, fl)
    }
    fn rust_default() -> Option<Value> {
        Some(Bool::default().read(&mut Ctx::unbounded()))
    }
    fn rand_content(rng: &mut crate::drive::Rng, _d: usize) -> Value {
        json!(rng.below(2))
    }
    fn rand_op(&self, rng: &mut crate::drive::Rng) -> Option<(Vec<usize>, Value)> {
        Some((vec![], mk_op("set", 0, Self::rand_content(rng, 0))))
    }
}
impl SizedShape for Bool {
    fn from_val(v: &Value) -> Self {
        Bool::from(v.as_u64().unwrap_or(0) != 0)
    }
}

// ---- arrays --------------------------------------------------------------------------------

impl<T: SizedShape, const N: usize> Shape for [T; N] {
    sized_hooks!();
    fn read(&self, c: &mut Ctx) -> Value {
        c.node("array", self);
        Value::Array(self.iter().map(|x| x.read(c)).collect())
    }
    fn apply_child(&mut self, path: &[usize], op: &Value, fl: u32) -> Value {
        self[path[0]].apply(&path[1..], op, fl)
    }
    fn apply_here(&mut self, op: &Value, fl: u32) -> Value {
        set_here(self, op, fl)
    }
    fn probe(&self, base: usize) -> Value {
        json!({"elems": self.iter().map(|x| x as *const T as usize - base).collect::<Vec<_>>()})
    }
    fn rand_content(rng: &mut crate::drive::Rng, d: usize) -> Value {
        Value::Array((0..N).map(|_| T::rand_content(rng, d)).collect())
    }
    fn rand_op(&self, rng: &mut crate::drive::Rng) -> Option<(Vec<usize>, Value)> {
        if N == 0 { None } else { Some((vec![], mk_op("set", 0, Self::rand_content(rng, 0)))) }
    }
}
impl<T: SizedShape, const N: usize> SizedShape for [T; N] {
    fn from_val(v: &Value) -> Self {
        let a = arr(v);
        core::array::from_fn(|i| T::from_val(&a[i]))
    }
}

// ---- FlatVec -------------------------------------------------------------------------------

pub enum VecEmp<T> {
    Empty,
    Iter(std::vec::IntoIter<T>),
    A0([T; 0]),
    A1([T; 1]),
    A2([T; 2]),
    A3([T; 3]),
    A4([T; 4]),
    /// one more item than a one-byte length type can count
    A256(Box<[T; 256]>),
}

unsafe impl<T: Flat + Sized, L: Flat + Length> Emplacer<FlatVec<T, L>> for VecEmp<T> {
    unsafe fn emplace_unchecked(self, bytes: &mut [u8]) -> Result<&mut FlatVec<T, L>, Error> {
        match self {
            VecEmp::Empty => vec::Empty.emplace_unchecked(bytes),
            VecEmp::Iter(i) => vec::FromIterator(i).emplace_unchecked(bytes),
            VecEmp::A0(a) => vec::FromArray(a).emplace_unchecked(bytes),
            VecEmp::A1(a) => vec::FromArray(a).emplace_unchecked(bytes),
            VecEmp::A2(a) => vec::FromArray(a).emplace_unchecked(bytes),
            VecEmp::A3(a) => vec::FromArray(a).emplace_unchecked(bytes),
            VecEmp::A4(a) => vec::FromArray(a).emplace_unchecked(bytes),
            VecEmp::A256(a) => vec::FromArray(*a).emplace_unchecked(bytes),
        }
    }
}

fn vec_items<T: SizedShape>(v: &Value) -> Vec<T> {
    let items = if v.is_array() { v } else { &v["items"] };
    arr(items).iter().map(T::from_val).collect()
}

impl<T: SizedShape, L: Flat + Length> Shape for FlatVec<T, L> {
    type Emp<'a> = VecEmp<T>;
    fn emp<'a>(v: &'a Value, fl: u32) -> VecEmp<T> {
        let items: Vec<T> = vec_items(v);
        let n = items.len();
        if fl % 3 == 1 && n == 256 {
            let v: Vec<T> = items;
            return match <Box<[T; 256]>>::try_from(v.into_boxed_slice()) {
                Ok(a) => VecEmp::A256(a),
                Err(_) => unreachable!(),
            };
        }
        if fl % 3 == 1 && n <= 4 {
            let mut it = items.into_iter();
            let mut nx = || it.next().unwrap();
            match n {
                0 => VecEmp::A0([]),
                1 => VecEmp::A1([nx()]),
                2 => VecEmp::A2([nx(), nx()]),
                3 => VecEmp::A3([nx(), nx(), nx()]),
                _ => VecEmp::A4([nx(), nx(), nx(), nx()]),
            }
        } else if fl % 3 == 2 && n == 0 {
            VecEmp::Empty
        } else {
            VecEmp::Iter(items.into_iter())
        }
    }
    default_hooks!();
    fn read(&self, c: &mut Ctx) -> Value {
        c.node("FlatVec", self);
        let (len, cap) = (self.len(), self.capacity());
        if len > cap {
            c.lencap.push(format!("FlatVec len {} > capacity {}", len, cap));
            return json!({"cap": cap, "len": len, "items": []});
        }
        let s = self.as_slice();
        c.range("FlatVec::as_slice", s.as_ptr() as usize, size_of_val(s));
        if self.remaining() != cap - len {
            c.other.push(format!("remaining {} != cap-len {}", self.remaining(), cap - len));
        }
        json!({"cap": cap, "items": s.iter().map(|x| x.read(c)).collect::<Vec<_>>()})
    }
    fn eq_(&self, other: &Self) -> Option<bool> {
        Some(self == other)
    }
    fn probe(&self, base: usize) -> Value {
        json!({"data": self.data().as_ptr() as usize - base, "cap": self.capacity()})
    }
    fn rand_content(rng: &mut crate::drive::Rng, d: usize) -> Value {
        let n = if rng.chance(10) { rng.below(20) } else { rng.below(6) };
        Value::Array((0..n).map(|_| T::rand_content(rng, d)).collect())
    }
    fn rand_op(&self, rng: &mut crate::drive::Rng) -> Option<(Vec<usize>, Value)> {
        let (len, cap) = (self.len(), self.capacity());
        let e = |rng: &mut crate::drive::Rng| T::rand_content(rng, 1);
        let many = |rng: &mut crate::drive::Rng, n: usize| Value::Array((0..n).map(|_| T::rand_content(rng, 1)).collect());
        let op = match rng.below(11) {
            0 | 1 => mk_op("push", 0, e(rng)),
            2 => mk_op("pop", 0, json!([])),
            3 => { let n = rng.below(cap.saturating_sub(len).min(6) + 2); mk_op("push_slice", 0, many(rng, n)) }
            4 => { let n = rng.below(5); mk_op("extend", 0, many(rng, n)) }
            5 => mk_op("truncate", rng.below(len + 2), json!([])),
            6 if len > 0 => mk_op("remove", rng.below(len), json!([])),
            7 if len > 0 => mk_op("swap_remove", rng.below(len), json!([])),
            8 => mk_op("resize", rng.below(cap.min(8) + 1), e(rng)),
            9 if len > 0 => mk_op("set", rng.below(len), e(rng)),
            10 if rng.chance(20) => mk_op("clear", 0, json!([])),
            _ => mk_op("push", 0, e(rng)),
        };
        Some((vec![], op))
    }
    fn apply_child(&mut self, path: &[usize], op: &Value, fl: u32) -> Value {
        self[path[0]].apply(&path[1..], op, fl)
    }
    fn apply_here(&mut self, op: &Value, fl: u32) -> Value {
        let mut c = Ctx::unbounded();
        let n = op["n"].as_u64().unwrap_or(0) as usize;
        match op["op"].as_str().unwrap_or("") {
            "push" => json!({"ok": self.push(T::from_val(&op["v"])).is_ok()}),
            "pop" => match self.pop() {
                Some(x) => json!({"ok": true, "ret": x.read(&mut c)}),
                None => json!({"ok": false}),
            },
            "push_slice" => {
                let xs: Vec<T> = vec_items(&op["v"]);
                json!({"ok": self.push_slice(&xs).is_ok()})
            }
            "extend" => {
                let xs: Vec<T> = vec_items(&op["v"]);
                self.extend_until_full(xs);
                json!({"ok": true})
            }
            "truncate" => {
                self.truncate(n);
                json!({"ok": true})
            }
            "clear" => {
                self.clear();
                json!({"ok": true})
            }
            "remove" => json!({"ok": true, "ret": self.remove(n).read(&mut c)}),
            "swap_remove" => json!({"ok": true, "ret": self.swap_remove(n).read(&mut c)}),
            "resize" => {
                self.resize(n, T::from_val(&op["v"]));
                json!({"ok": true})
            }
            "set" => {
                self[n] = T::from_val(&op["v"]);
                json!({"ok": true})
            }
            _ => self.apply_common(op, fl),
        }
    }
}

// ---- FlatString ----------------------------------------------------------------------------

pub enum StrEmp {
    Empty,
    Str(String),
}
unsafe impl<L: Flat + Length> Emplacer<FlatString<L>> for StrEmp {
    unsafe fn emplace_unchecked(self, bytes: &mut [u8]) -> Result<&mut FlatString<L>, Error> {
        match self {
            StrEmp::Empty => string::Empty.emplace_unchecked(bytes),
            StrEmp::Str(s) => string::FromStr(s).emplace_unchecked(bytes),
        }
    }
}
pub fn rand_string(rng: &mut crate::drive::Rng, max_chars: usize) -> String {
    const CH: [char; 10] = ['a', 'Z', '0', ' ', '\u{7f}', '\u{e9}', '\u{20ac}', '\u{1f600}', '\u{7ff}', '\u{ffff}'];
    let n = if max_chars == 1 { 1 } else { rng.below(max_chars + 1) };
    (0..n).map(|_| CH[rng.below(CH.len())]).collect()
}
fn str_of(v: &Value) -> String {
    let b = if v.is_array() { bytes_of(v) } else { bytes_of(&v["bytes"]) };
    String::from_utf8(b).expect("spec strings are UTF-8")
}

impl<L: Flat + Length> Shape for FlatString<L> {
    type Emp<'a> = StrEmp;
    fn emp<'a>(v: &'a Value, fl: u32) -> StrEmp {
        let s = str_of(v);
        if fl % 3 == 2 && s.is_empty() {
            StrEmp::Empty
        } else {
            StrEmp::Str(s)
        }
    }
    default_hooks!();
    fn read(&self, c: &mut Ctx) -> Value {
        c.node("FlatString", self);
        let (len, cap) = (self.len(), self.capacity());
        if len > cap {
            c.lencap.push(format!("FlatString len {} > capacity {}", len, cap));
            return json!({"cap": cap, "len": len, "bytes": []});
        }
        let s = self.as_str();
        c.range("FlatString::as_str", s.as_ptr() as usize, s.len());
        if self.remaining() != cap - len {
            c.other.push(format!("remaining {} != cap-len {}", self.remaining(), cap - len));
        }
        json!({"cap": cap, "bytes": s.as_bytes().to_vec()})
    }
    fn eq_(&self, other: &Self) -> Option<bool> {
        Some(self == other)
    }
    fn probe(&self, base: usize) -> Value {
        json!({"data": self.as_vec().data().as_ptr() as usize - base, "cap": self.capacity()})
    }
    fn rand_content(rng: &mut crate::drive::Rng, _d: usize) -> Value {
        json!(rand_string(rng, 5).into_bytes())
    }
    fn rand_op(&self, rng: &mut crate::drive::Rng) -> Option<(Vec<usize>, Value)> {
        let op = match rng.below(6) {
            0 | 1 => mk_op("push", 0, json!(rand_string(rng, 1).into_bytes())),
            2 | 3 | 4 => mk_op("push_str", 0, json!(rand_string(rng, 4).into_bytes())),
            _ => mk_op("clear", 0, json!([])),
        };
        if op["op"] == "push" && op["v"].as_array().map(|a| a.is_empty()).unwrap_or(true) {
            return Some((vec![], mk_op("push_str", 0, json!([]))));
        }
        Some((vec![], op))
    }
    fn apply_here(&mut self, op: &Value, fl: u32) -> Value {
        match op["op"].as_str().unwrap_or("") {
            "push" => {
                let ch = str_of(&op["v"]).chars().next().expect("one char");
                json!({"ok": self.push(ch).is_ok()})
            }
            "push_str" => json!({"ok": self.push_str(&str_of(&op["v"])).is_ok()}),
            "clear" => {
                self.clear();
                json!({"ok": true})
            }
            _ => self.apply_common(op, fl),
        }
    }
}

// ---- FlexVec -------------------------------------------------------------------------------

impl<T: Shape + ?Sized, L: Flat + Length> Shape for FlexVec<T, L> {
    type Emp<'a> = flex::FromIterator<T, T::Emp<'a>, std::vec::IntoIter<T::Emp<'a>>>;
    fn emp<'a>(v: &'a Value, fl: u32) -> Self::Emp<'a> {
        let items = if v.is_array() { v } else { &v["items"] };
        let es: Vec<T::Emp<'a>> = arr(items).iter().map(|it| T::emp(if it.get("v").is_some() { &it["v"] } else { it }, fl)).collect();
        flex::FromIterator::new(es)
    }
    default_hooks!();
    fn read(&self, c: &mut Ctx) -> Value {
        c.node("FlexVec", self);
        let items: Vec<Value> = self
            .iter()
            .map(|x| {
                let off = x as *const T as *const u8 as usize - self as *const Self as *const u8 as usize;
                json!({"v": x.read(c), "at": off})
            })
            .collect();
        let len = self.len();
        if len != items.len() {
            c.other.push(format!("FlexVec len() {} != iter().count() {}", len, items.len()));
        }
        if self.is_empty() != (len == 0) {
            c.other.push(format!("FlexVec is_empty() {} but len() {}", self.is_empty(), len));
        }
        json!({"items": items})
    }
    fn probe(&self, base: usize) -> Value {
        json!({"data": self.iter().next().map(|x| x as *const T as *const u8 as usize - base)})
    }
    fn rand_content(rng: &mut crate::drive::Rng, d: usize) -> Value {
        let n = if d == 0 { rng.below(2) } else { rng.below(4) };
        Value::Array((0..n).map(|_| T::rand_content(rng, d.saturating_sub(1))).collect())
    }
    fn rand_op(&self, rng: &mut crate::drive::Rng) -> Option<(Vec<usize>, Value)> {
        let len = self.len();
        if len > 0 && rng.chance(40) {
            let i = rng.below(len);
            if let Some(r) = self.iter().nth(i).and_then(|x| child_op(i, x, rng)) {
                return Some(r);
            }
        }
        let op = match rng.below(8) {
            0 | 1 | 2 => mk_op("push", 0, T::rand_content(rng, 1)),
            3 if T::has_default() => mk_op("push_default", 0, json!([])),
            4 => mk_op("pop", 0, json!([])),
            5 => mk_op("truncate", rng.below(len + 2), json!([])),
            6 if rng.chance(25) => mk_op("clear", 0, json!([])),
            _ => mk_op("push", 0, T::rand_content(rng, 1)),
        };
        Some((vec![], op))
    }
    fn apply_child(&mut self, path: &[usize], op: &Value, fl: u32) -> Value {
        match self.iter_mut().nth(path[0]) {
            Some(x) => x.apply(&path[1..], op, fl),
            None => json!({"unsupported": "no such item"}),
        }
    }
    fn apply_here(&mut self, op: &Value, fl: u32) -> Value {
        let n = op["n"].as_u64().unwrap_or(0) as usize;
        match op["op"].as_str().unwrap_or("") {
            "push" => res_json(&self.push(T::emp(&op["v"], fl))),
            "push_default" => T::flex_push_default(self).unwrap_or(json!({"unsupported": "push_default"})),
            "pop" => json!({"ok": self.pop().is_ok()}),
            "truncate" => {
                self.truncate(n);
                json!({"ok": true})
            }
            "clear" => {
                self.clear();
                json!({"ok": true})
            }
            _ => self.apply_common(op, fl),
        }
    }
}
