mod catalog;
mod drive;
mod io;
mod mem;
mod portable;
mod replay;
mod shape;

use replay::{Engine, Out};
use serde_json::{json, Value};
use std::collections::BTreeMap;
use std::io::{BufRead, BufReader, Write};
use std::sync::atomic::{AtomicU64, Ordering};
use std::sync::Arc;

/// A case line as TLC prints it: `<<"CASE", "<json, escaped as a TLA+ string>">>`, or plain JSON.
pub fn parse_case_line(line: &str) -> Option<Value> {
    let l = line.trim_end();
    if let Some(rest) = l.strip_prefix("<<\"CASE\", ") {
        let inner = rest.strip_suffix(">>")?;
        let s: String = serde_json::from_str(inner).ok()?;
        serde_json::from_str(&s).ok()
    } else if l.starts_with('{') {
        serde_json::from_str(l).ok()
    } else {
        None
    }
}

fn arg(args: &[String], name: &str) -> Option<String> {
    args.iter().position(|a| a == name).and_then(|i| args.get(i + 1).cloned())
}

fn main() {
    let args: Vec<String> = std::env::args().collect();
    let cmd = args.get(1).map(|s| s.as_str()).unwrap_or("");
    std::panic::set_hook(Box::new(|_| {}));
    match cmd {
        "replay" => replay_cmd(&args),
        "one" => one_cmd(&args),
        "drive" => drive::drive_cmd(&args),
        "ids" => {
            for id in catalog::IDS {
                println!("{}", id);
            }
        }
        _ => {
            eprintln!("usage: harness replay --cases F --out F --props C01,C02 [--shard i/n] [--progress F] [--skip-to N]\n       harness one --file REPLAY.json");
            std::process::exit(2);
        }
    }
}

fn one_cmd(args: &[String]) {
    let f = arg(args, "--file").expect("--file");
    let v: Value = serde_json::from_str(&std::fs::read_to_string(&f).expect("read replay file")).expect("json");
    let props: Vec<String> = match arg(args, "--props") {
        Some(p) => p.split(',').map(|s| s.to_string()).collect(),
        None => v["props"].as_array().map(|a| a.iter().filter_map(|x| x.as_str().map(String::from)).collect()).unwrap_or_default(),
    };
    let case = if v.get("case").is_some() { v["case"].clone() } else { v.clone() };
    let mut eng = Engine::new(props);
    if let Some(h) = v.get("header") {
        eng.headers.push(h.clone());
    }
    if let Some(h) = case.get("header") {
        eng.headers.push(h.clone());
    }
    let mut out = Out::default();
    eng.run_case(&case, &mut out);
    for viol in &out.violations {
        println!("VIOLATION property={} sig={} detail={}", viol["prop"].as_str().unwrap_or(""), viol["sig"].as_str().unwrap_or(""), viol["detail"].as_str().unwrap_or(""));
    }
    if out.violations.is_empty() {
        println!("no violation on this case");
    }
    std::process::exit(if out.violations.is_empty() { 0 } else { 1 });
}

fn replay_cmd(args: &[String]) {
    let cases = arg(args, "--cases").expect("--cases");
    let outp = arg(args, "--out").expect("--out");
    let props: Vec<String> = arg(args, "--props").map(|p| p.split(',').map(|s| s.to_string()).collect()).unwrap_or_default();
    let (shard, nshards) = arg(args, "--shard")
        .map(|s| {
            let mut it = s.split('/');
            (it.next().unwrap().parse::<u64>().unwrap(), it.next().unwrap().parse::<u64>().unwrap())
        })
        .unwrap_or((0, 1));
    let skip_to: u64 = arg(args, "--skip-to").and_then(|s| s.parse().ok()).unwrap_or(0);
    let progress = arg(args, "--progress");
    let max_keep: usize = arg(args, "--keep").and_then(|s| s.parse().ok()).unwrap_or(40);

    let cur = Arc::new(AtomicU64::new(u64::MAX));
    // watchdog: a case that does not finish is reported as a hang (exit code 3)
    {
        let cur = cur.clone();
        let progress = progress.clone();
        std::thread::spawn(move || {
            let mut last = (u64::MAX - 1, 0u32);
            loop {
                std::thread::sleep(std::time::Duration::from_millis(500));
                let c = cur.load(Ordering::Relaxed);
                if c == last.0 && c != u64::MAX {
                    last.1 += 1;
                    if last.1 >= 40 {
                        if let Some(p) = &progress {
                            let _ = std::fs::write(p, format!("{} hang\n", c));
                        }
                        eprintln!("HANG at case {}", c);
                        std::process::exit(3);
                    }
                } else {
                    last = (c, 0);
                }
            }
        });
    }

    let mut eng = Engine::new(props);
    // first pass: header cases of the IO models (streams, message lists)
    {
        let f = BufReader::with_capacity(1 << 20, std::fs::File::open(&cases).expect("open cases"));
        for line in f.lines().flatten() {
            if line.contains("iostream") || line.contains("iomsgs") {
                if let Some(c) = parse_case_line(&line) {
                    if c["k"] == "iostream" || c["k"] == "iomsgs" {
                        eng.headers.push(c);
                    }
                }
            }
        }
    }
    let traces_out = arg(args, "--traces");
    if traces_out.is_some() {
        eng.trace_sink = Some(std::cell::RefCell::new(vec![]));
    }
    let mut out = Out::default();
    let mut kept: Vec<Value> = vec![];
    let mut by_sig: BTreeMap<String, (u64, Value)> = BTreeMap::new();
    let f = BufReader::with_capacity(1 << 20, std::fs::File::open(&cases).expect("open cases"));
    let mut idx: u64 = 0;
    let mut ran: u64 = 0;
    let mut pf = progress.as_ref().map(|p| std::fs::OpenOptions::new().create(true).write(true).truncate(true).open(p).expect("progress file"));
    for line in f.lines() {
        let line = match line {
            Ok(l) => l,
            Err(_) => continue,
        };
        if !(line.starts_with("<<\"CASE\"") || line.starts_with('{')) {
            continue;
        }
        let my = idx % nshards == shard && idx >= skip_to;
        idx += 1;
        if !my {
            continue;
        }
        let case = match parse_case_line(&line) {
            Some(c) => c,
            None => {
                out.count("unparsable-line");
                continue;
            }
        };
        cur.store(idx - 1, Ordering::Relaxed);
        if let Some(pf) = pf.as_mut() {
            use std::io::Seek;
            let _ = pf.seek(std::io::SeekFrom::Start(0));
            let _ = writeln!(pf, "{:<20} run", idx - 1);
        }
        eng.run_case(&case, &mut out);
        ran += 1;
        for mut v in out.violations.drain(..) {
            v["case_index"] = json!(idx - 1);
            let sig = v["sig"].as_str().unwrap_or("").to_string();
            let e = by_sig.entry(sig).or_insert((0, Value::Null));
            e.0 += 1;
            if e.0 == 1 {
                e.1 = v.clone();
            }
            if kept.len() < max_keep && e.0 <= 2 {
                kept.push(v);
            }
        }
    }
    cur.store(u64::MAX, Ordering::Relaxed);
    let sigs: Vec<Value> = by_sig.iter().map(|(s, (n, first))| json!({"sig": s, "count": n, "first": first})).collect();
    let res = json!({
        "shard": shard, "nshards": nshards, "cases_seen": idx, "cases_run": ran,
        "counts": out.counts, "samples": out.samples, "violations": kept, "signatures": sigs,
    });
    std::fs::write(&outp, serde_json::to_string(&res).unwrap()).expect("write out");
    if let (Some(tp), Some(sink)) = (traces_out, &eng.trace_sink) {
        let mut f = std::io::BufWriter::new(std::fs::File::create(tp).expect("traces file"));
        for t in sink.borrow().iter() {
            let _ = writeln!(f, "{}", t);
        }
    }
    if let Some(p) = &progress {
        let _ = std::fs::write(p, "done\n");
    }
}
