//! Seeded random drivers (implementation -> specification direction).  They exercise the real library
//! far outside the bounds of the exhaustive models -- full byte range, longer buffers, long histories
//! with arbitrary element values -- and log one NDJSON event per call at the call's return; the trace is
//! then judged by TLC with spec/TraceFlat.tla.
use crate::catalog::{dispatch, Visitor};
use crate::mem::{Arena, Place};
use crate::replay::{guarded, Obs};
use crate::shape::*;
use serde_json::{json, Value};
use std::io::Write;

pub struct Rng(pub u64);
impl Rng {
    pub fn next(&mut self) -> u64 {
        // xorshift64*
        let mut x = self.0;
        x ^= x >> 12;
        x ^= x << 25;
        x ^= x >> 27;
        self.0 = x;
        x.wrapping_mul(0x2545F4914F6CDD1D)
    }
    pub fn below(&mut self, n: usize) -> usize {
        if n == 0 { 0 } else { (self.next() % n as u64) as usize }
    }
    pub fn chance(&mut self, percent: usize) -> bool {
        self.below(100) < percent
    }
    pub fn byte(&mut self) -> u8 {
        // boundary-heavy distribution over the full byte range
        match self.below(8) {
            0 => 0,
            1 => 1,
            2 => 0xFF,
            3 => [2u8, 3, 4, 8, 0x7F, 0x80, 0xFE][self.below(7)],
            _ => (self.next() & 0xFF) as u8,
        }
    }
}

struct Drv<'a> {
    kind: &'a str,
    rng: &'a mut Rng,
    out: &'a mut dyn Write,
    steps: usize,
    id: &'a str,
    arena: &'a Arena,
    events: &'a mut usize,
}

fn emit(out: &mut dyn Write, v: Value, events: &mut usize) {
    let _ = writeln!(out, "{}", v);
    *events += 1;
}

impl<'a> Visitor for Drv<'a> {
    type Out = ();
    fn visit<T: Shape + ?Sized>(self) {
        let Drv { kind, rng, out, steps, id, arena, events } = self;
        let min = T::MIN_SIZE;
        let align = T::ALIGN;
        match kind {
            "dec" => {
                // a valid image (emplace random content), then mutated / truncated / extended, or plain random bytes
                let l = min + rng.below(40);
                let mut bytes = vec![0u8; l];
                for b in bytes.iter_mut() {
                    *b = rng.byte();
                }
                let mut mode = rng.below(4);
                // size() of the valid message the bytes are derived from (0: plain random bytes)
                let mut base = 0usize;
                if mode != 0 {
                    let pl = arena.place(l, 0, 16, Place::End);
                    pl.slice().copy_from_slice(&bytes);
                    let content = T::rand_content(rng, 3);
                    let made = guarded(|| T::new_in_place(pl.slice(), T::emp(&content, 0)).map(|x| x.size()).ok());
                    let ok = matches!(made, Obs::Ret(Some(_)));
                    if let Obs::Ret(Some(sz)) = made {
                        base = sz;
                    }
                    if !ok {
                        mode = 0;
                    }
                    if ok {
                        bytes.copy_from_slice(pl.slice());
                        match mode {
                            1 => {
                                for _ in 0..1 + rng.below(3) {
                                    if l > 0 {
                                        let k = rng.below(l);
                                        bytes[k] = rng.byte();
                                    }
                                }
                            }
                            2 => bytes.truncate(rng.below(l + 1)),
                            _ => {
                                for _ in 0..rng.below(9) {
                                    bytes.push(rng.byte());
                                }
                            }
                        }
                    }
                }
                let addr = if rng.chance(10) { rng.below(align.max(1)) } else { 0 };
                let pl = arena.place(bytes.len(), addr, 16, Place::End);
                pl.slice().copy_from_slice(&bytes);
                let r = guarded(|| {
                    T::from_bytes(pl.slice()).map(|x| {
                        let mut c = Ctx::new(pl.lo(), pl.hi());
                        (x.read(&mut c), x.size(), c.oob.len() + c.lencap.len() + c.other.len())
                    })
                });
                match r {
                    Obs::Panic(m) => emit(out, json!({"ev": "panic", "what": "from_bytes", "id": id, "bs": bytes, "addr": addr, "msg": m}), events),
                    Obs::Ret(Ok((read, size, bad))) => emit(out, json!({"ev": "dec", "id": id, "addr": addr, "bs": bytes, "ok": true, "kind": "", "read": read, "size": size, "inconsistent": bad, "mode": mode, "base": base}), events),
                    Obs::Ret(Err(e)) => emit(out, json!({"ev": "dec", "id": id, "addr": addr, "bs": bytes, "ok": false, "kind": err_json(&e)["kind"], "read": [], "size": 0, "inconsistent": 0, "mode": mode, "base": base}), events),
                }
            }
            "emp" => {
                let l = rng.below(min + 40);
                let addr = if rng.chance(15) { rng.below(align.max(1)) } else { 0 };
                let content = T::rand_content(rng, 3);
                let pl = arena.place(l, addr, 16, Place::End);
                for b in pl.slice().iter_mut() {
                    *b = rng.byte();
                }
                let fl = rng.below(3) as u32;
                let r = guarded(|| T::new_in_place(pl.slice(), T::emp(&content, fl)).map(|x| x.size()));
                match r {
                    Obs::Panic(m) => emit(out, json!({"ev": "panic", "what": "new_in_place", "id": id, "L": l, "addr": addr, "content": content, "msg": m}), events),
                    Obs::Ret(Ok(size)) => emit(out, json!({"ev": "emp", "id": id, "L": l, "addr": addr, "content": content, "ok": true, "kind": "", "post": pl.slice().to_vec(), "size": size}), events),
                    Obs::Ret(Err(e)) => emit(out, json!({"ev": "emp", "id": id, "L": l, "addr": addr, "content": content, "ok": false, "kind": err_json(&e)["kind"], "post": [], "size": 0}), events),
                }
                if !pl.canaries_ok() {
                    emit(out, json!({"ev": "panic", "what": "canary", "id": id, "L": l, "addr": addr, "content": content, "msg": "bytes outside the slice changed"}), events);
                }
            }
            "dflt" => {
                if !T::has_default() {
                    return;
                }
                let l = rng.below(min + 40);
                let addr = if rng.chance(15) { rng.below(align.max(1)) } else { 0 };
                let pl = arena.place(l, addr, 16, Place::End);
                for b in pl.slice().iter_mut() {
                    *b = rng.byte();
                }
                let r = guarded(|| T::default_in_place_(pl.slice()).map(|x| x.size()));
                match r {
                    Obs::Panic(m) => emit(out, json!({"ev": "panic", "what": "default_in_place", "id": id, "L": l, "addr": addr, "msg": m}), events),
                    Obs::Ret(Ok(size)) => emit(out, json!({"ev": "dflt", "id": id, "L": l, "addr": addr, "ok": true, "kind": "", "post": pl.slice().to_vec(), "size": size}), events),
                    Obs::Ret(Err(e)) => emit(out, json!({"ev": "dflt", "id": id, "L": l, "addr": addr, "ok": false, "kind": err_json(&e)["kind"], "post": [], "size": 0}), events),
                }
                if !pl.canaries_ok() {
                    emit(out, json!({"ev": "panic", "what": "canary", "id": id, "L": l, "addr": addr, "msg": "bytes outside the slice changed"}), events);
                }
            }
            _ => {
                // a history of operations on one buffer
                let l = min + rng.below(48);
                let pl = arena.place(l, 0, 16, Place::End);
                for b in pl.slice().iter_mut() {
                    *b = rng.byte();
                }
                let content = T::rand_content(rng, 2);
                let init = guarded(|| T::new_in_place(pl.slice(), T::emp(&content, 0)).is_ok());
                let mut ok = matches!(init, Obs::Ret(true));
                if !ok && T::has_default() {
                    ok = matches!(guarded(|| T::default_in_place_(pl.slice()).is_ok()), Obs::Ret(true));
                }
                if !ok {
                    return;
                }
                for _ in 0..steps {
                    let pre = pl.slice().to_vec();
                    let pick = guarded(|| T::from_mut_bytes(pl.slice()).ok().and_then(|x| x.rand_op(rng)));
                    let (path, op) = match pick {
                        Obs::Ret(Some(p)) => p,
                        Obs::Ret(None) => break,
                        Obs::Panic(m) => {
                            emit(out, json!({"ev": "panic", "what": "from_mut_bytes/rand_op", "id": id, "pre": pre, "msg": m}), events);
                            break;
                        }
                    };
                    let fl = rng.below(3) as u32;
                    let r = guarded(|| {
                        let x = T::from_mut_bytes(pl.slice()).expect("value mapped a moment ago");
                        let res = x.apply(&path, &op, fl);
                        (res, x.size())
                    });
                    match r {
                        Obs::Panic(m) => {
                            emit(out, json!({"ev": "panic", "what": "op", "id": id, "pre": pre, "path": path, "op": op, "msg": m}), events);
                            break;
                        }
                        Obs::Ret((res, size)) => {
                            if res.get("unsupported").is_some() {
                                continue;
                            }
                            emit(out, json!({"ev": "op", "id": id, "pre": pre, "path": path, "op": op, "ok": res["ok"], "post": pl.slice().to_vec(), "size": size}), events);
                        }
                    }
                    if !pl.canaries_ok() {
                        emit(out, json!({"ev": "panic", "what": "canary", "id": id, "pre": pre, "path": path, "op": op, "msg": "bytes outside the slice changed"}), events);
                        break;
                    }
                }
            }
        }
    }
}

/// `harness drive --kind dec|emp|ops --types a,b,c --n N --steps K --seed S --out F`
pub fn drive_cmd(args: &[String]) {
    let arg = |name: &str| args.iter().position(|a| a == name).and_then(|i| args.get(i + 1).cloned());
    let kind = arg("--kind").unwrap_or_else(|| "ops".into());
    let types: Vec<String> = arg("--types").map(|t| t.split(',').map(|s| s.to_string()).collect()).unwrap_or_default();
    let n: usize = arg("--n").and_then(|s| s.parse().ok()).unwrap_or(1000);
    let steps: usize = arg("--steps").and_then(|s| s.parse().ok()).unwrap_or(40);
    let seed: u64 = arg("--seed").and_then(|s| s.parse().ok()).unwrap_or(1);
    let outp = arg("--out").expect("--out");
    let mut rng = Rng(seed.wrapping_mul(0x9E3779B97F4A7C15) | 1);
    let arena = Arena::new();
    let mut f = std::io::BufWriter::new(std::fs::File::create(&outp).expect("create trace"));
    let mut events = 0usize;
    let mut i = 0;
    if kind == "pscalar" {
        // portable scalars: one event per drawn pair of values, judged by spec/TracePortable.tla
        while events < n {
            emit(&mut f, crate::portable::drive_pscalar(&mut rng), &mut events);
        }
    }
    while kind != "pscalar" && events < n && i < 20 * n {
        i += 1;
        let id = types[rng.below(types.len())].clone();
        let known = dispatch(&id, Drv { kind: &kind, rng: &mut rng, out: &mut f, steps, id: &id, arena: &arena, events: &mut events });
        if known.is_none() {
            eprintln!("unknown type {}", id);
            std::process::exit(2);
        }
    }
    let _ = f.flush();
    println!("{} events", events);
}
